"""Expression evaluation over the Python AST (real source and contract expressions alike)."""
import ast
import z3
from .values import *  # noqa
from .state import *   # noqa

S = z3.StringVal


def is_lit_str(v):
    return isinstance(v, VStr) and z3.is_string_value(v.e)


class EvalMixin(object):
    # ------------------------------------------------------------------ helpers
    def oblige(self, st, kind, goal, node, note=""):
        """Record a proof obligation under the current path condition."""
        if isinstance(goal, bool):
            goal = z3.BoolVal(goal)
        if not isinstance(goal, VQ) and z3.is_true(z3.simplify(goal)) and not st.guards:
            self.trivial += 1
            return
        line = getattr(node, "lineno", 0) if node is not None else 0
        if self.in_contract:
            line = self.cur_line
        else:
            line += self.line_offset
        name = "%s/%s/%s@%d#%s" % (self.prop, self.uname, kind, line, st.pathid())
        if self.ctag:
            name += ":" + self.ctag
        self.obligs.append(Obligation(name, kind, st.hyps(), list(st.qf), goal, line, list(st.terms), note))

    def safety(self, st, exc, goal, node, note=""):
        """Implicit exception `exc` is raised unless `goal`. If the contract allows exc, fork is not
        modelled: the path simply continues under the assumption (allowed exceptions end the run with a
        permitted outcome).  Otherwise it is an obligation."""
        if self.in_contract:
            # contract expressions must be well defined on their own: never covered by the unit's raises clause
            self.oblige(st, "spec-welldefined-" + exc, goal, node, note)
        elif exc not in self.raises_ok:
            self.oblige(st, "safety-" + exc, goal, node, note)
        st.assume(goal)

    def truth(self, v, st=None):
        if isinstance(v, VBool):
            return v.e
        if isinstance(v, VInt):
            return v.e != 0
        if isinstance(v, VStr):
            return z3.Length(v.e) > 0
        if isinstance(v, VNone):
            return z3.BoolVal(False)
        if isinstance(v, VPy):
            e = v.e
            return z3.If(PyVal.is_pnone(e), False,
                   z3.If(PyVal.is_pbool(e), PyVal.pb(e),
                   z3.If(PyVal.is_pint(e), PyVal.pi(e) != 0,
                   z3.If(PyVal.is_pstr(e), z3.Length(PyVal.ps(e)) > 0, self.opaque_truth(e)))))
        if isinstance(v, VOpt):
            return z3.And(z3.Not(v.isnone), self.truth(v.val, st))
        if isinstance(v, VRef):
            cell = st.heap[v.oid]
            if isinstance(cell, HList):
                return cell.n > 0
            if isinstance(cell, HCList):
                return z3.BoolVal(len(cell.items) > 0)
            if isinstance(cell, HDict):
                if cell.items is not None:
                    return z3.BoolVal(len(cell.items) > 0)
                if cell.size is not None:
                    return cell.size > 0
                return cell.nonempty if hasattr(cell, "nonempty") else z3.Bool(fresh_name("dict_nonempty"))
            return z3.BoolVal(True)
        if isinstance(v, VTuple):
            return z3.BoolVal(len(v.items) > 0)
        if isinstance(v, VFun):
            return z3.BoolVal(True)
        raise OutOfSubset("truthiness of %r" % (v,))

    _otruth = z3.Function("py_truth_other", IntS, BoolS)

    def opaque_truth(self, e):
        return self._otruth(PyVal.po(e))

    def to_py(self, v):
        """Inject a typed value into PyVal."""
        if isinstance(v, VPy):
            return v.e
        if isinstance(v, VNone):
            return PyVal.pnone
        if isinstance(v, VBool):
            return PyVal.pbool(v.e)
        if isinstance(v, VInt):
            return PyVal.pint(v.e)
        if isinstance(v, VStr):
            return PyVal.pstr(v.e)
        if isinstance(v, VOpt):
            return z3.If(v.isnone, PyVal.pnone, self.to_py(v.val))
        raise OutOfSubset("cannot inject %r into PyVal" % (v,))

    def eq(self, a, b, st):
        """Python == as a z3 Bool."""
        if isinstance(a, VOpt) or isinstance(b, VOpt):
            if isinstance(b, VOpt) and not isinstance(a, VOpt):
                a, b = b, a
            if isinstance(b, VNone):
                return a.isnone
            if isinstance(b, VOpt):
                return z3.Or(z3.And(a.isnone, b.isnone),
                             z3.And(z3.Not(a.isnone), z3.Not(b.isnone), self.eq(a.val, b.val, st)))
            return z3.And(z3.Not(a.isnone), self.eq(a.val, b, st))
        if isinstance(a, VPy) or isinstance(b, VPy):
            if isinstance(a, VPy) and isinstance(b, VPy):
                # bool/int cross equality (True == 1) is handled conservatively as structural
                return a.e == b.e
            if isinstance(b, VPy):
                a, b = b, a
            e = a.e
            if isinstance(b, VStr):
                return z3.And(PyVal.is_pstr(e), PyVal.ps(e) == b.e)
            if isinstance(b, VNone):
                return PyVal.is_pnone(e)
            if isinstance(b, VBool):
                return z3.Or(z3.And(PyVal.is_pbool(e), PyVal.pb(e) == b.e),
                             z3.And(PyVal.is_pint(e), PyVal.pi(e) == z3.If(b.e, 1, 0)))
            if isinstance(b, VInt):
                return z3.Or(z3.And(PyVal.is_pint(e), PyVal.pi(e) == b.e),
                             z3.And(PyVal.is_pbool(e), z3.If(PyVal.pb(e), 1, 0) == b.e))
            raise OutOfSubset("== between PyVal and %r" % (b,))
        if a.kind != b.kind:
            if {a.kind, b.kind} == {"int", "bool"}:
                ai = a.e if a.kind == "int" else z3.If(a.e, 1, 0)
                bi = b.e if b.kind == "int" else z3.If(b.e, 1, 0)
                return ai == bi
            return z3.BoolVal(False)
        if isinstance(a, VNone):
            return z3.BoolVal(True)
        if isinstance(a, (VInt, VStr, VBool)):
            return a.e == b.e
        if isinstance(a, VTuple):
            if len(a.items) != len(b.items):
                return z3.BoolVal(False)
            return z3.And(*[self.eq(x, y, st) for x, y in zip(a.items, b.items)]) if a.items else z3.BoolVal(True)
        if isinstance(a, VRef):
            ca, cb = st.heap[a.oid], st.heap[b.oid]
            if a.oid == b.oid:
                return z3.BoolVal(True)
            if isinstance(ca, HCList) and isinstance(cb, HCList):
                if len(ca.items) != len(cb.items):
                    return z3.BoolVal(False)
                return z3.And(*[self.eq(x, y, st) for x, y in zip(ca.items, cb.items)]) if ca.items else z3.BoolVal(True)
            if isinstance(ca, (HList, HCList)) and isinstance(cb, (HList, HCList)) and (isinstance(ca, HCList) or isinstance(cb, HCList)):
                # one side has a static length: a plain (quantifier-free) formula
                sc, sy = (ca, cb) if isinstance(ca, HCList) else (cb, ca)
                if all(isinstance(x, (VInt, VStr, VBool)) for x in sc.items):
                    ly = self.as_hlist(sy)
                    kinds = set(x.kind for x in sc.items)
                    if not sc.items:
                        return ly.n == 0
                    if kinds == {ly.ek}:
                        return z3.And(ly.n == len(sc.items), *[z3.Select(ly.arr, i) == x.e for i, x in enumerate(sc.items)])
            if isinstance(ca, (HList, HCList)) and isinstance(cb, (HList, HCList)):
                la, lb = self.as_hlist(ca), self.as_hlist(cb)
                if la.ek != lb.ek:
                    raise OutOfSubset("list == of different element kinds")
                n = la.n
                return VQconj(z3.simplify(la.n == lb.n),
                              VQ(z3.IntVal(0), n, lambda i, la=la, lb=lb: z3.Select(la.arr, i) == z3.Select(lb.arr, i)))
            if isinstance(ca, HObj) and isinstance(cb, HObj):
                return z3.BoolVal(a.oid == b.oid)
            raise OutOfSubset("== on heap cells %r %r" % (ca, cb))
        raise OutOfSubset("== on %r, %r" % (a, b))

    def as_hlist(self, cell, ek=None):
        """View a static list of scalars as (n, arr)."""
        if isinstance(cell, HList):
            return cell
        kinds = set(x.kind for x in cell.items)
        if len(kinds) > 1:
            raise OutOfSubset("heterogeneous list cannot become symbolic: %s" % kinds)
        k = kinds.pop() if kinds else (ek or "str")
        if k not in SORTS:
            raise OutOfSubset("list of %s cannot become symbolic" % k)
        arr = z3.K(IntS, {"str": S(""), "int": z3.IntVal(0), "bool": z3.BoolVal(False), "py": PyVal.pnone}[k])
        for i, x in enumerate(cell.items):
            arr = z3.Store(arr, i, x.e)
        return HList(k, z3.IntVal(len(cell.items)), arr)

    def strof(self, v, st, node=None):
        """str(v) / '%s' % v"""
        if isinstance(v, VStr):
            return v.e
        if isinstance(v, VInt):
            return py_str_of_int(v.e)
        if isinstance(v, VBool):
            return z3.If(v.e, S("True"), S("False"))
        if isinstance(v, VNone):
            return S("None")
        if isinstance(v, VPy):
            e = v.e
            return z3.If(PyVal.is_pstr(e), PyVal.ps(e),
                   z3.If(PyVal.is_pint(e), py_str_of_int(PyVal.pi(e)),
                   z3.If(PyVal.is_pbool(e), z3.If(PyVal.pb(e), S("True"), S("False")),
                   z3.If(PyVal.is_pnone(e), S("None"), self._ostr(PyVal.po(e))))))
        if isinstance(v, VOpt):
            return z3.If(v.isnone, S("None"), self.strof(v.val, st, node))
        if isinstance(v, (VRef, VTuple)):
            return z3.String(fresh_name("str_of_object"))     # repr-like text of a container/object: unspecified
        raise OutOfSubset("str() of %r" % (v,), node)

    _ostr = z3.Function("py_str_other", IntS, StrS)

    # ------------------------------------------------------------------ expressions
    def ev(self, node, st):
        m = getattr(self, "ev_" + type(node).__name__, None)
        if m is None:
            raise OutOfSubset("expression %s" % type(node).__name__, node)
        return m(node, st)

    def ev_Constant(self, node, st):
        c = node.value
        if c is None:
            return VNone()
        if isinstance(c, bool):
            return VBool(c)
        if isinstance(c, int):
            return VInt(c)
        if isinstance(c, str):
            return VStr(c)
        raise OutOfSubset("constant %r" % (c,), node)

    def ev_Name(self, node, st):
        if node.id in st.env:
            return st.env[node.id]
        if node.id in self.builtins:
            return self.builtins[node.id]
        if node.id in self.unit.global_callees:
            return self.unit.global_callees[node.id]
        if self.in_contract and node.id in self.unit.prebind:
            st.env[node.id] = self.make_value(self.unit.prebind[node.id], st, node.id)   # unbound yet: arbitrary
            return st.env[node.id]
        import os as _os
        if _os.path.exists(_os.path.join(self.repo, "shroud", node.id + ".py")):
            return VNS(node.id)
        cv = self.resolve_constant(VNS(self.path.split("/")[-1][:-3]), node.id, st)
        if cv is not None:
            return cv
        raise OutOfSubset("name %r is not bound on this path" % node.id, node)

    def ev_JoinedStr(self, node, st):
        raise OutOfSubset("f-string", node)

    def ev_Tuple(self, node, st):
        return VTuple([self.ev(e, st) for e in node.elts])

    def ev_List(self, node, st):
        return st.alloc(HCList([self.ev(e, st) for e in node.elts]))

    def ev_Dict(self, node, st):
        items = {}
        for k, v in zip(node.keys, node.values):
            kv = self.ev(k, st)
            if not is_lit_str(kv):
                raise OutOfSubset("dict literal with non-constant key", node)
            items[kv.e.as_string()] = self.ev(v, st)
        return st.alloc(HDict(items=items))

    def ev_IfExp(self, node, st):
        c = self.ev_truth(node.test, st)
        st.guards.append(c)
        a = self.ev(node.body, st)
        st.guards.pop()
        st.guards.append(z3.Not(c))
        b = self.ev(node.orelse, st)
        st.guards.pop()
        return self.ite(c, a, b, st, node)

    def ite(self, c, a, b, st, node=None):
        c = z3.simplify(c)
        if z3.is_true(c):
            return a
        if z3.is_false(c):
            return b
        if a.kind == b.kind and a.kind in ("int", "str", "bool", "py"):
            return type(a)(z3.If(c, a.e, b.e))
        if isinstance(a, VNone) and isinstance(b, VNone):
            return a
        if isinstance(a, VNone) and b.kind in ("int", "str", "bool"):
            return VOpt(c, b)
        if isinstance(b, VNone) and a.kind in ("int", "str", "bool"):
            return VOpt(z3.Not(c), a)
        if isinstance(a, VOpt) or isinstance(b, VOpt):
            an = a.isnone if isinstance(a, VOpt) else z3.BoolVal(isinstance(a, VNone))
            bn = b.isnone if isinstance(b, VOpt) else z3.BoolVal(isinstance(b, VNone))
            av = a.val if isinstance(a, VOpt) else a
            bv = b.val if isinstance(b, VOpt) else b
            if isinstance(av, VNone):
                av = bv
            if isinstance(bv, VNone):
                bv = av
            return VOpt(z3.If(c, an, bn), self.ite(c, av, bv, st, node))
        if isinstance(a, VTuple) and isinstance(b, VTuple) and len(a.items) == len(b.items):
            return VTuple([self.ite(c, x, y, st, node) for x, y in zip(a.items, b.items)],
                          a.names if a.names == b.names else None)
        if isinstance(a, VRef) and isinstance(b, VRef):
            ca, cb = st.heap[a.oid], st.heap[b.oid]
            if a.oid == b.oid:
                return a
            if isinstance(ca, HObj) and isinstance(cb, HObj) and set(ca.f) == set(cb.f):
                # read-only merge of two objects of the same shape (e.g. `node = cls or library`)
                return st.alloc(HObj(ca.cls, dict((k, self.ite(c, ca.f[k], cb.f[k], st, node)) for k in ca.f)))
            if isinstance(ca, (HList, HCList)) and isinstance(cb, (HList, HCList)):
                la, lb = self.as_hlist(ca), self.as_hlist(cb, ek=None)
                if isinstance(ca, HCList) and not ca.items:
                    la = HList(lb.ek, la.n, lb.arr)
                if isinstance(cb, HCList) and not cb.items:
                    lb = HList(la.ek, lb.n, la.arr)
                if la.ek == lb.ek:
                    return st.alloc(HList(la.ek, z3.If(c, la.n, lb.n), z3.If(c, la.arr, lb.arr)))
        try:
            return VPy(z3.If(c, self.to_py(a), self.to_py(b)))
        except OutOfSubset:
            raise OutOfSubset("conditional expression joining %r and %r" % (a, b), node)

    def ev_truth(self, node, st):
        """truth value of an expression used as a condition (no need to build `a and b`'s operand value)"""
        if isinstance(node, ast.BoolOp):
            ts = []
            pushed = 0
            try:
                for e in node.values:
                    t = self.ev_truth(e, st)
                    ts.append(t)
                    st.guards.append(t if isinstance(node.op, ast.And) else z3.Not(t))
                    pushed += 1
            finally:
                for _ in range(pushed):
                    st.guards.pop()
            return z3.And(*ts) if isinstance(node.op, ast.And) else z3.Or(*ts)
        if isinstance(node, ast.UnaryOp) and isinstance(node.op, ast.Not):
            return z3.Not(self.ev_truth(node.operand, st))
        v = self.ev(node, st)
        t = self.truth(v, st)
        return t

    def ev_BoolOp(self, node, st):
        # value semantics only needed when operands are not bool: `a or b` returning operands
        vals = []
        pushed = 0
        try:
            for e in node.values:
                v = self.ev(e, st)
                vals.append(v)
                t = self.truth(v, st)
                st.guards.append(t if isinstance(node.op, ast.And) else z3.Not(t))
                pushed += 1
        finally:
            for _ in range(pushed):
                st.guards.pop()
        if all(isinstance(v, VBool) for v in vals):
            f = z3.And if isinstance(node.op, ast.And) else z3.Or
            return VBool(f(*[v.e for v in vals]))
        res = vals[-1]
        for v in reversed(vals[:-1]):
            t = self.truth(v, st)
            if isinstance(node.op, ast.And):
                res = self.ite(t, res, v, st, node)
            else:
                if isinstance(v, VOpt) and not isinstance(res, (VOpt, VNone)):
                    v = v.val          # `a or b`: a is returned only when it is truthy, hence not None
                res = self.ite(t, v, res, st, node)
        return res

    def ev_UnaryOp(self, node, st):
        v = self.ev(node.operand, st)
        if isinstance(node.op, ast.Not):
            t = self.truth(v, st)
            if isinstance(t, VQ):
                raise OutOfSubset("negated quantifier", node)
            return VBool(z3.Not(t))
        if isinstance(node.op, ast.USub) and isinstance(v, VInt):
            return VInt(-v.e)
        if isinstance(node.op, ast.UAdd) and isinstance(v, VInt):
            return v
        raise OutOfSubset("unary op on %r" % (v,), node)

    def ev_BinOp(self, node, st):
        a = self.ev(node.left, st)
        b = self.ev(node.right, st)
        return self.binop(node.op, a, b, st, node)

    def binop(self, op, a, b, st, node):
        if isinstance(a, VBool) and isinstance(b, (VInt, VBool)) or isinstance(b, VBool) and isinstance(a, VInt):
            a = VInt(z3.If(a.e, 1, 0)) if isinstance(a, VBool) else a
            b = VInt(z3.If(b.e, 1, 0)) if isinstance(b, VBool) else b
        if isinstance(a, VInt) and isinstance(b, VInt):
            if isinstance(op, ast.Add):
                return VInt(a.e + b.e)
            if isinstance(op, ast.Sub):
                return VInt(a.e - b.e)
            if isinstance(op, ast.Mult):
                return VInt(a.e * b.e)
            if isinstance(op, ast.FloorDiv):
                self.safety(st, "ZeroDivisionError", b.e != 0, node)
                # python floor division == SMT div for positive divisor; general form:
                q = z3.If(b.e > 0, a.e / b.e, (-a.e) / (-b.e))
                return VInt(q)
            if isinstance(op, ast.Mod):
                self.safety(st, "ZeroDivisionError", b.e != 0, node)
                return VInt(z3.If(b.e > 0, a.e % b.e, -((-a.e) % (-b.e))))
        if isinstance(op, ast.Add) and ((isinstance(a, VStr) and isinstance(b, VOpt) and isinstance(b.val, VStr)) or
                                        (isinstance(b, VStr) and isinstance(a, VOpt) and isinstance(a.val, VStr))):
            # str + Optional[str]: TypeError when it is None
            o = a if isinstance(a, VOpt) else b
            self.safety(st, "TypeError", z3.Not(o.isnone), node, "can only concatenate str (not NoneType) to str")
            a = a.val if isinstance(a, VOpt) else a
            b = b.val if isinstance(b, VOpt) else b
        if isinstance(a, VStr) and isinstance(b, VStr) and isinstance(op, ast.Add):
            return VStr(z3.Concat(a.e, b.e))
        if isinstance(a, VStr) and isinstance(b, VInt) and isinstance(op, ast.Mult):
            return VStr(self.rep(a.e, b.e, st))
        if isinstance(a, VInt) and isinstance(b, VStr) and isinstance(op, ast.Mult):
            return VStr(self.rep(b.e, a.e, st))
        if isinstance(a, VStr) and isinstance(op, ast.Mod):
            if not z3.is_string_value(a.e):
                raise OutOfSubset("% with non-constant template", node)
            args = b.items if isinstance(b, VTuple) else [b]
            return VStr(self.pct_format(a.e.as_string(), args, st, node))
        if isinstance(a, VRef) and isinstance(b, VRef) and isinstance(op, ast.Add):
            ca, cb = st.heap[a.oid], st.heap[b.oid]
            if isinstance(ca, HCList) and isinstance(cb, HCList):
                return st.alloc(HCList(ca.items + cb.items))
            if isinstance(ca, (HList, HCList)) and isinstance(cb, (HList, HCList)):
                return st.alloc(self.list_concat(ca, cb, st))
        if isinstance(op, ast.Add) and isinstance(a, VStr) and isinstance(b, VPy):
            self.safety(st, "TypeError", PyVal.is_pstr(b.e), node, "can only concatenate str to str")
            return VStr(z3.Concat(a.e, PyVal.ps(b.e)))
        if isinstance(op, ast.Add) and isinstance(b, VStr) and isinstance(a, VPy):
            self.safety(st, "TypeError", PyVal.is_pstr(a.e), node, "can only concatenate str to str")
            return VStr(z3.Concat(PyVal.ps(a.e), b.e))
        if isinstance(a, VPy) or isinstance(b, VPy):
            # dynamically typed operands: only str+str and int+int are total; anything else TypeError
            if isinstance(op, ast.Add):
                pa, pb = self.to_py(a), self.to_py(b)
                ok = z3.Or(z3.And(PyVal.is_pstr(pa), PyVal.is_pstr(pb)),
                           z3.And(z3.Or(PyVal.is_pint(pa), PyVal.is_pbool(pa)), z3.Or(PyVal.is_pint(pb), PyVal.is_pbool(pb))))
                self.safety(st, "TypeError", ok, node, "operands of + must both be str or both be int")
                ia = z3.If(PyVal.is_pbool(pa), z3.If(PyVal.pb(pa), 1, 0), PyVal.pi(pa))
                ib = z3.If(PyVal.is_pbool(pb), z3.If(PyVal.pb(pb), 1, 0), PyVal.pi(pb))
                return VPy(z3.If(PyVal.is_pstr(pa), PyVal.pstr(z3.Concat(PyVal.ps(pa), PyVal.ps(pb))),
                                 PyVal.pint(ia + ib)))
        raise OutOfSubset("binary %s on %r, %r" % (type(op).__name__, a, b), node)

    def list_concat(self, ca, cb, st):
        la, lb = self.as_hlist(ca), self.as_hlist(cb)
        if isinstance(ca, HCList) and not ca.items:
            return lb
        if isinstance(cb, HCList) and not cb.items:
            return la
        if la.ek != lb.ek:
            raise OutOfSubset("list + of different kinds")
        i = z3.Int(fresh_name("li"))
        arr = z3.Lambda([i], z3.If(i < la.n, z3.Select(la.arr, i), z3.Select(lb.arr, i - la.n)))
        n = la.n + lb.n
        return HList(la.ek, n, arr)

    def rep(self, s, n, st):
        n = z3.simplify(n)
        if z3.is_int_value(n) and z3.is_string_value(s):
            return S(s.as_string() * n.as_long())
        if z3.is_int_value(n) and n.as_long() <= 0:
            return S("")
        if z3.is_int_value(n) and n.as_long() <= 4:
            return z3.Concat(*([s] * n.as_long())) if n.as_long() > 1 else s
        r = REP(s, n)
        st.assume(z3.Implies(n <= 0, r == S("")))
        st.assume(z3.Length(r) == z3.Length(s) * z3.If(n > 0, n, 0))
        return r

    def pct_format(self, tmpl, args, st, node):
        pieces = []
        i = 0
        ai = 0
        lit = ""
        while i < len(tmpl):
            ch = tmpl[i]
            if ch == "%":
                spec = tmpl[i + 1] if i + 1 < len(tmpl) else ""
                if spec == "%":
                    lit += "%"
                    i += 2
                    continue
                if spec not in ("s", "d", "r"):
                    raise OutOfSubset("format spec %%%s" % spec, node)
                if ai >= len(args):
                    raise OutOfSubset("not enough arguments for format string", node)
                if lit:
                    pieces.append(S(lit))
                    lit = ""
                a = args[ai]
                ai += 1
                if spec == "r":
                    pieces.append(self._repr(self.strof(a, st, node)))
                else:
                    if spec == "d" and not isinstance(a, VInt):
                        raise OutOfSubset("%d of non-int", node)
                    pieces.append(self.strof(a, st, node))
                i += 2
            else:
                lit += ch
                i += 1
        if lit:
            pieces.append(S(lit))
        if ai != len(args):
            raise OutOfSubset("too many arguments for format string", node)
        if not pieces:
            return S("")
        return z3.Concat(*pieces) if len(pieces) > 1 else pieces[0]

    _repr = z3.Function("py_repr", StrS, StrS)

    def ev_Compare(self, node, st):
        left = self.ev(node.left, st)
        res = []
        for op, rn in zip(node.ops, node.comparators):
            right = self.ev(rn, st)
            res.append(self.compare(op, left, right, st, node))
            left = right
        if len(res) == 1:
            r = res[0]
            return r if isinstance(r, V) else VBool(r)
        if any(isinstance(r, V) for r in res):
            raise OutOfSubset("chained comparison with quantifier", node)
        return VBool(z3.And(*res))

    def compare(self, op, a, b, st, node):
        if isinstance(op, (ast.Eq, ast.NotEq)):
            e = self.eq(a, b, st)
            if isinstance(e, V):
                if isinstance(op, ast.NotEq):
                    raise OutOfSubset("!= on lists", node)
                return e
            return e if isinstance(op, ast.Eq) else z3.Not(e)
        if isinstance(op, (ast.Is, ast.IsNot)):
            if isinstance(b, VNone) or isinstance(a, VNone):
                if isinstance(a, VNone):
                    a, b = b, a
                if isinstance(a, VNone):
                    e = z3.BoolVal(True)
                elif isinstance(a, VPy):
                    e = PyVal.is_pnone(a.e)
                elif isinstance(a, VOpt):
                    e = a.isnone
                else:
                    e = z3.BoolVal(False)
            elif isinstance(a, VBool) and isinstance(b, VBool):
                e = a.e == b.e
            elif isinstance(a, VPy) and isinstance(b, VBool):
                e = z3.And(PyVal.is_pbool(a.e), PyVal.pb(a.e) == b.e)
            elif isinstance(a, VRef) and isinstance(b, VRef):
                e = z3.BoolVal(a.oid == b.oid)
            elif all(isinstance(x, VRef) or (isinstance(x, VOpt) and isinstance(x.val, VRef)) for x in (a, b)):
                # Optional[object] is Optional[object]: both None, or both the same object
                na = a.isnone if isinstance(a, VOpt) else z3.BoolVal(False)
                nb = b.isnone if isinstance(b, VOpt) else z3.BoolVal(False)
                ra = a.val if isinstance(a, VOpt) else a
                rb = b.val if isinstance(b, VOpt) else b
                e = z3.Or(z3.And(na, nb), z3.And(z3.Not(na), z3.Not(nb), z3.BoolVal(ra.oid == rb.oid)))
            elif isinstance(b, VBool) and isinstance(a, (VStr, VInt, VRef, VTuple)):
                e = z3.BoolVal(False)      # `x is True/False` for a value of another type
            elif isinstance(a, VBool) and isinstance(b, (VStr, VInt, VRef, VTuple)):
                e = z3.BoolVal(False)
            else:
                raise OutOfSubset("`is` on %r, %r" % (a, b), node)
            return e if isinstance(op, ast.Is) else z3.Not(e)
        if isinstance(op, (ast.Lt, ast.LtE, ast.Gt, ast.GtE)):
            if isinstance(a, VBool):
                a = VInt(z3.If(a.e, 1, 0))
            if isinstance(b, VBool):
                b = VInt(z3.If(b.e, 1, 0))
            if isinstance(a, VPy) or isinstance(b, VPy):
                pa, pb = self.to_py(a), self.to_py(b)
                isnum = lambda p: z3.Or(PyVal.is_pint(p), PyVal.is_pbool(p))
                self.safety(st, "TypeError", z3.Or(z3.And(isnum(pa), isnum(pb)), z3.And(PyVal.is_pstr(pa), PyVal.is_pstr(pb))),
                            node, "ordering comparison needs two ints or two strs")
                num = lambda p: z3.If(PyVal.is_pbool(p), z3.If(PyVal.pb(p), 1, 0), PyVal.pi(p))
                ai, bi = num(pa), num(pb)
                f = {ast.Lt: lambda x, y: x < y, ast.LtE: lambda x, y: x <= y,
                     ast.Gt: lambda x, y: x > y, ast.GtE: lambda x, y: x >= y}[type(op)]
                # string ordering left abstract
                return z3.If(isnum(pa), f(ai, bi), self._strcmp(PyVal.ps(pa), PyVal.ps(pb), z3.IntVal(
                    [ast.Lt, ast.LtE, ast.Gt, ast.GtE].index(type(op)))))
            if isinstance(a, VInt) and isinstance(b, VInt):
                return {ast.Lt: a.e < b.e, ast.LtE: a.e <= b.e, ast.Gt: a.e > b.e, ast.GtE: a.e >= b.e}[type(op)]
            if isinstance(a, VStr) and isinstance(b, VStr):
                return self._strcmp(a.e, b.e, z3.IntVal([ast.Lt, ast.LtE, ast.Gt, ast.GtE].index(type(op))))
            # mixed static types: TypeError in Python 3
            self.safety(st, "TypeError", z3.BoolVal(False), node, "ordering comparison between %s and %s" % (a.kind, b.kind))
            return z3.Bool(fresh_name("cmp"))
        if isinstance(op, (ast.In, ast.NotIn)):
            e = self.contains(b, a, st, node)
            return e if isinstance(op, ast.In) else z3.Not(e)
        raise OutOfSubset("comparison %s" % type(op).__name__, node)

    _strcmp = z3.Function("py_strcmp", StrS, StrS, IntS, BoolS)

    def contains(self, cont, x, st, node):
        if isinstance(cont, VStr):
            if isinstance(x, VStr):
                return z3.Contains(cont.e, x.e)
            if isinstance(x, VPy):
                self.safety(st, "TypeError", PyVal.is_pstr(x.e), node, "'in <string>' requires string as left operand")
                return z3.Contains(cont.e, PyVal.ps(x.e))
            self.safety(st, "TypeError", z3.BoolVal(False), node, "'in <string>' requires string as left operand")
            return z3.BoolVal(False)
        if isinstance(cont, VTuple):
            items = cont.items
            return z3.Or(*[self.eq(x, y, st) for y in items]) if items else z3.BoolVal(False)
        if isinstance(cont, VRef):
            cell = st.heap[cont.oid]
            if isinstance(cell, HObj) and (cell.cls, "__contains__") in self.method_contracts and not self.in_contract:
                # `x in obj` on an object whose class has __contains__ under contract: the call by contract
                r = self.method_contracts[(cell.cls, "__contains__")](cont).fn(self, st, [x], {}, node)
                return self.truth(r, st)
            if isinstance(cell, HCList):
                return z3.Or(*[self.eq(x, y, st) for y in cell.items]) if cell.items else z3.BoolVal(False)
            if isinstance(cell, HDict):
                if cell.items is not None:
                    return z3.Or(*[self.eq(x, VStr(k), st) for k in cell.items]) if cell.items else z3.BoolVal(False)
                if isinstance(x, VStr):
                    return z3.Select(cell.keys, x.e)
                if isinstance(x, VPy):
                    return z3.And(PyVal.is_pstr(x.e), z3.Select(cell.keys, PyVal.ps(x.e)))
                return z3.BoolVal(False)
            if isinstance(cell, HList):
                xe = x.e if x.kind == cell.ek else None
                if xe is None:
                    raise OutOfSubset("in on list of other kind", node)
                # one Skolem pair per (list value, element): the same question asked twice gets the same answer
                cache = self.__dict__.setdefault("_inlist_cache", {})
                ck = (cell.arr.sexpr(), cell.n.sexpr(), xe.sexpr())
                if ck not in cache:
                    cache[ck] = (z3.Int(fresh_name("wit")), z3.Bool(fresh_name("inlist")))
                j, r = cache[ck]
                # r <-> exists j: one direction by witness, the other by quantified fact
                st.assume(z3.Implies(r, z3.And(0 <= j, j < cell.n, z3.Select(cell.arr, j) == xe)))
                st.qf.append(QFact(z3.IntVal(0), cell.n, lambda i, r=r, cell=cell, xe=xe: z3.Implies(z3.Select(cell.arr, i) == xe, r), "in-list"))
                return r
            if isinstance(cell, HObj) and cell.cls == "Scope":
                return self.scope_contains(cell, x, st, node)
            if isinstance(cell, HObj) and cell.cls == "Tree":
                return z3.Bool(fresh_name("tree_has"))
        raise OutOfSubset("`in` on %r" % (cont,), node)

    # ------------------------------------------------------------------ subscripts, attributes
    def norm_index(self, i, n):
        i = z3.simplify(i)
        if z3.is_int_value(i):
            return i if i.as_long() >= 0 else z3.simplify(n + i)
        return z3.If(i < 0, i + n, i)

    def ev_Subscript(self, node, st):
        base = self.ev(node.value, st)
        sl = node.slice
        if isinstance(sl, ast.Slice):
            return self.do_slice(base, sl, st, node)
        idx = self.ev(sl, st)
        return self.getitem(base, idx, st, node)

    def getitem(self, base, idx, st, node):
        if isinstance(base, VOpt):
            self.safety(st, "TypeError", z3.Not(base.isnone), node, "subscript of None")
            base = base.val
        if isinstance(base, VStr):
            if not isinstance(idx, VInt):
                raise OutOfSubset("str index %r" % (idx,), node)
            n = z3.Length(base.e)
            j = self.norm_index(idx.e, n)
            self.safety(st, "IndexError", z3.And(0 <= j, j < n), node, "string index out of range")
            return VStr(z3.SubString(base.e, j, 1))
        if isinstance(base, VTuple):
            if isinstance(idx, VInt) and z3.is_int_value(z3.simplify(idx.e)):
                k = z3.simplify(idx.e).as_long()
                if -len(base.items) <= k < len(base.items):
                    return base.items[k]
                self.safety(st, "IndexError", z3.BoolVal(False), node, "tuple index out of range")
                raise PathEnd()
            raise OutOfSubset("tuple index", node)
        if isinstance(base, VPy):
            # subscripting a dynamically typed value: str ok, others TypeError/KeyError
            self.safety(st, "TypeError", PyVal.is_pstr(base.e), node, "subscript of a non-string attribute value")
            return self.getitem(VStr(PyVal.ps(base.e)), idx, st, node)
        if isinstance(base, VRef):
            cell = st.heap[base.oid]
            if isinstance(cell, HCList):
                if isinstance(idx, VInt) and z3.is_int_value(z3.simplify(idx.e)):
                    k = z3.simplify(idx.e).as_long()
                    if -len(cell.items) <= k < len(cell.items):
                        return cell.items[k]
                    self.safety(st, "IndexError", z3.BoolVal(False), node, "list index out of range")
                    if self.in_contract and st.guards:
                        return cell.items[0] if cell.items else VStr("")   # unreachable under its guard
                    raise PathEnd()
                cell = self.as_hlist(cell)
            if isinstance(cell, HList):
                if not isinstance(idx, VInt):
                    raise OutOfSubset("list index %r" % (idx,), node)
                j = self.norm_index(idx.e, cell.n)
                self.safety(st, "IndexError", z3.And(0 <= j, j < cell.n), node, "list index out of range")
                return wrap(cell.ek, z3.Select(cell.arr, j))
            if isinstance(cell, HDict):
                return self.dict_get(cell, idx, st, node, strict=True)
            if isinstance(cell, HObj) and cell.cls == "Scope":
                return self.scope_getattr(base, cell, idx, st, node)
            if isinstance(cell, HObj) and (cell.cls, "__getitem__") in self.method_contracts and not self.in_contract:
                return self.method_contracts[(cell.cls, "__getitem__")](base).fn(self, st, [idx], {}, node)
            if isinstance(cell, HObj) and cell.cls == "Tree":
                return st.alloc(HObj("Tree", {}))
            if isinstance(cell, HObj) and cell.cls == "ObjDict":
                return st.alloc(HObj("Scope1", {}))     # a member object; the contract observes its stores by anchors
            if isinstance(cell, HObj) and cell.cls == "KeyedObjs":
                # a read-only dict of objects whose string fields are functions of the key (d[k].field == FIELD(k))
                key = idx.e if isinstance(idx, VStr) else PyVal.ps(idx.e)
                return st.alloc(HObj("Fmt", dict((fld, VStr(z3.Function("field_%s_by_key" % fld, StrS, StrS)(key)))
                                                 for fld in cell.f)))
            if isinstance(cell, HRecList) and isinstance(idx, VInt):
                j = self.norm_index(idx.e, cell.n)
                self.safety(st, "IndexError", z3.And(0 <= j, j < cell.n), node, "list index out of range")
                return cell.elem(j, st)
        raise OutOfSubset("subscript of %r" % (base,), node)

    def dict_get(self, cell, key, st, node, strict):
        if cell.items is not None:
            if is_lit_str(key):
                k = key.e.as_string()
                if k in cell.items:
                    return cell.items[k]
                if strict:
                    self.safety(st, "KeyError", z3.BoolVal(False), node, "key %r" % k)
                    raise PathEnd()
                return None
            if isinstance(key, VStr) and cell.items:
                ks = sorted(cell.items)
                if strict:
                    self.safety(st, "KeyError", z3.Or(*[key.e == S(k) for k in ks]), node, "key not in the constant table")
                res = cell.items[ks[-1]]
                for k in reversed(ks[:-1]):
                    res = self.ite(key.e == S(k), cell.items[k], res, st, node)
                return res
            raise OutOfSubset("static dict with symbolic key", node)
        if isinstance(key, VPy):
            self.safety(st, "KeyError", PyVal.is_pstr(key.e), node, "non-string key")
            key = VStr(PyVal.ps(key.e))
        if not isinstance(key, VStr):
            raise OutOfSubset("dict key %r" % (key,), node)
        if isinstance(cell.ek, tuple):
            if strict:
                self.safety(st, "KeyError", z3.Select(cell.keys, key.e), node, "dictionary key may be absent")
            return VTuple([self.materialise(wrap(k, z3.Select(a, key.e)), st) for k, a in zip(cell.ek[1:], cell.vals)])
        if cell.default:
            if cell.ek != "py":
                raise OutOfSubset("defaultdict of %s" % cell.ek, node)
            return VPy(z3.If(z3.Select(cell.keys, key.e), z3.Select(cell.vals, key.e), PyVal.pnone))
        if strict:
            self.safety(st, "KeyError", z3.Select(cell.keys, key.e), node, "dictionary key may be absent")
        return self.materialise(wrap(cell.ek, z3.Select(cell.vals, key.e)), st)

    def materialise(self, v, st):
        if isinstance(v, VSList):
            st.assume(SL_LEN(v.e) >= 0)
            return st.alloc(HList("str", SL_LEN(v.e), SL_ARR(v.e)))
        return v

    def do_slice(self, base, sl, st, node):
        if sl.step is not None:
            raise OutOfSubset("step slice", node)
        lo = self.ev(sl.lower, st) if sl.lower is not None else None
        hi = self.ev(sl.upper, st) if sl.upper is not None else None
        if isinstance(base, VPy):
            self.safety(st, "TypeError", PyVal.is_pstr(base.e), node, "slice of a non-string attribute value")
            base = VStr(PyVal.ps(base.e))
        if isinstance(base, VStr):
            n = z3.Length(base.e)
            l, h = self.clamp(lo, n, 0), self.clamp(hi, n, None)
            ln = z3.If(h - l > 0, h - l, 0)
            return VStr(z3.SubString(base.e, l, z3.simplify(ln)))
        if isinstance(base, VRef):
            cell = st.heap[base.oid]
            if isinstance(cell, HCList):
                lc = self.conc(lo)
                hc = self.conc(hi)
                if (lo is None or lc is not None) and (hi is None or hc is not None):
                    return st.alloc(HCList(cell.items[lc:hc]))
            cell = self.as_hlist(cell)
            l, h = self.clamp(lo, cell.n, 0), self.clamp(hi, cell.n, None)
            ln = z3.simplify(z3.If(h - l > 0, h - l, 0))
            if lo is None or isinstance(lo, VNone):
                return st.alloc(HList(cell.ek, ln, cell.arr))      # a prefix: the same element function
            # the same slice of the same list is the same sequence (one term, so that functions of it agree)
            cache = self.__dict__.setdefault("_slice_cache", {})
            ck = (cell.arr.sexpr(), z3.simplify(l).sexpr())
            if ck not in cache:
                i = z3.Int(fresh_name("li"))
                cache[ck] = z3.Lambda([i], z3.Select(cell.arr, l + i))
            return st.alloc(HList(cell.ek, ln, cache[ck]))
        raise OutOfSubset("slice of %r" % (base,), node)

    def conc(self, v):
        if v is None:
            return None
        if isinstance(v, VInt):
            e = z3.simplify(v.e)
            if z3.is_int_value(e):
                return e.as_long()
        return None

    def clamp(self, v, n, default):
        """Python slice bound normalisation."""
        if v is None or isinstance(v, VNone):
            return z3.IntVal(0) if default == 0 else n
        if not isinstance(v, VInt):
            raise OutOfSubset("slice bound %r" % (v,))
        e = z3.simplify(v.e)
        if z3.is_int_value(e):
            k = e.as_long()
            if k >= 0:
                return z3.simplify(z3.If(n < k, n, z3.IntVal(k)))
            return z3.simplify(z3.If(n + k < 0, z3.IntVal(0), n + k))
        w = z3.If(e < 0, e + n, e)
        return z3.If(w < 0, z3.IntVal(0), z3.If(w > n, n, w))

    def ev_Attribute(self, node, st):
        base = self.ev(node.value, st)
        return self.getattr(base, node.attr, st, node)

    def getattr(self, base, name, st, node):
        if isinstance(base, VNS):
            qn = ".".join((base.module,) + tuple(base.path) + (name,))
            if qn in self.unit.global_callees:
                return self.unit.global_callees[qn]       # module function under (assumed or verified) contract: "util.wformat"
            cv = self.resolve_constant(base, name, st)
            if cv is None:
                raise OutOfSubset("%s.%s is not a literal constant of the repository" % (".".join((base.module,) + base.path), name), node)
            return cv
        if isinstance(base, VRef):
            cell = st.heap[base.oid]
            if isinstance(cell, HObj):
                if (cell.cls, name) in self.unit.properties:
                    return self.unit.properties[(cell.cls, name)](self, base, st)
                if name in cell.f:
                    return cell.f[name]
                m = self.obj_method(base, cell, name, st, node)
                if m is not None:
                    return m
                if cell.cls == "Scope":
                    return self.scope_getattr(base, cell, VStr(name), st, node)
                raise OutOfSubset("field %s.%s is not declared by the contract" % (cell.cls, name), node)
            m = self.container_method(base, cell, name, st, node)
            if m is not None:
                return m
        if isinstance(base, VTuple) and base.names and name in base.names:
            return base.items[base.names.index(name)]
        if isinstance(base, VStr):
            return self.str_method(base, name, st, node)
        if isinstance(base, VPy):
            return self.py_method(base, name, st, node)
        if isinstance(base, VOpt):
            self.safety(st, "AttributeError", z3.Not(base.isnone), node, "attribute %s of None" % name)
            return self.getattr(base.val, name, st, node)
        if isinstance(base, VNone):
            self.safety(st, "AttributeError", z3.BoolVal(False), node, "attribute %s of None" % name)
            raise PathEnd()
        if isinstance(base, (VInt, VBool)):
            self.safety(st, "AttributeError", z3.BoolVal(False), node, "attribute %s of %s" % (name, base.kind))
            raise PathEnd()
        raise OutOfSubset("attribute %s of %r" % (name, base), node)

    def resolve_constant(self, ns, name, st):
        """module-level / class-level literal constant read from the real source (assumed never mutated)"""
        import os as _os
        fn = _os.path.join(self.repo, "shroud", ns.module + ".py")
        if not _os.path.exists(fn):
            return None
        tree = self._mod_cache.get(fn)
        if tree is None:
            tree = ast.parse(open(fn).read())
            self._mod_cache[fn] = tree
        body = tree.body
        for p_ in ns.path:
            nxt = [n for n in body if isinstance(n, ast.ClassDef) and n.name == p_]
            if not nxt:
                return None
            body = nxt[0].body
        for n in body:
            if isinstance(n, ast.ClassDef) and n.name == name:
                return VNS(ns.module, ns.path + (name,))
            if isinstance(n, ast.Assign) and len(n.targets) == 1 and isinstance(n.targets[0], ast.Name) and n.targets[0].id == name:
                try:
                    val = ast.literal_eval(n.value)
                except Exception:
                    val = self.namedtuple_table(body, n.value, st)
                    if val is None:
                        return None
                    self.assumptions.add("constant %s.%s read from the source text; assumed not mutated at run time"
                                         % (".".join((ns.module,) + ns.path), name))
                    return val
                self.assumptions.add("constant %s.%s read from the source text; assumed not mutated at run time"
                                     % (".".join((ns.module,) + ns.path), name))
                return self.lift(val, st)
        return None

    def namedtuple_table(self, body, node, st):
        """{literal key: NT(literal, ...)} where NT = collections.namedtuple("NT", "f1 f2") in the same scope"""
        if not isinstance(node, ast.Dict):
            return None
        nts = {}
        for n in body:
            if isinstance(n, ast.Assign) and len(n.targets) == 1 and isinstance(n.targets[0], ast.Name) \
                    and isinstance(n.value, ast.Call) and getattr(n.value.func, "attr", getattr(n.value.func, "id", "")) == "namedtuple" \
                    and len(n.value.args) == 2 and all(isinstance(a, ast.Constant) for a in n.value.args):
                flds = n.value.args[1].value
                nts[n.targets[0].id] = flds.replace(",", " ").split() if isinstance(flds, str) else None
        items = {}
        for k, v in zip(node.keys, node.values):
            if not (isinstance(k, ast.Constant) and isinstance(k.value, str) and isinstance(v, ast.Call)
                    and isinstance(v.func, ast.Name) and nts.get(v.func.id) and not v.keywords
                    and len(v.args) == len(nts[v.func.id])):
                return None
            try:
                vals = [ast.literal_eval(a) for a in v.args]
            except Exception:
                return None
            items[k.value] = VTuple([self.lift(x, st) for x in vals], nts[v.func.id])
        return st.alloc(HDict(items=items))

    def lift(self, val, st):
        if val is None:
            return VNone()
        if isinstance(val, bool):
            return VBool(val)
        if isinstance(val, int):
            return VInt(val)
        if isinstance(val, str):
            return VStr(val)
        if isinstance(val, (list, tuple)):
            items = [self.lift(x, st) for x in val]
            return st.alloc(HCList(items)) if isinstance(val, list) else VTuple(items)
        if isinstance(val, dict) and all(isinstance(k, str) for k in val):
            return st.alloc(HDict(items=dict((k, self.lift(v, st)) for k, v in val.items())))
        raise OutOfSubset("constant of type %s" % type(val).__name__)

    def ev_Call(self, node, st):
        if isinstance(node.func, ast.Name) and node.func.id in self.special_forms:
            return self.special_forms[node.func.id](node, st)
        if isinstance(node.func, ast.Attribute) and node.func.attr == "format" and len(node.args) == 1 \
                and isinstance(node.args[0], ast.Starred) and not node.keywords:
            tmpl = self.ev(node.func.value, st)
            lst = self.ev(node.args[0].value, st)
            if isinstance(tmpl, VStr) and isinstance(lst, VRef) and isinstance(st.heap[lst.oid], (HList, HCList)):
                n = self.as_hlist(st.heap[lst.oid], ek="py").n
                from .methods import VALIDFMT, FMTRES
                # str.format(*args) on a non-constant template: defined only if the template is a valid format
                # string for that many positional arguments (otherwise ValueError / IndexError / KeyError)
                self.safety(st, "ValueError", VALIDFMT(tmpl.e, n), node,
                            "template may contain braces that are not valid replacement fields")
                return VStr(FMTRES(tmpl.e, n))
        f = self.ev(node.func, st)
        if any(isinstance(a, ast.Starred) for a in node.args):
            raise OutOfSubset("*args call", node)
        args = [self.ev(a, st) for a in node.args]
        kwargs = {}
        for k in node.keywords:
            if k.arg is None:
                # f(..., **d): passed through as the callee's own `kwargs` parameter (only a callee under contract
                # that declares one can take it)
                if "kwargs" in kwargs:
                    raise OutOfSubset("two ** arguments", node)
                kwargs["kwargs"] = self.ev(k.value, st)
            else:
                kwargs[k.arg] = self.ev(k.value, st)
        if not isinstance(f, VFun):
            raise OutOfSubset("call of %r" % (f,), node)
        return f.fn(self, st, args, kwargs, node)

    def ev_ListComp(self, node, st):
        raise OutOfSubset("list comprehension", node)

    def ev_GeneratorExp(self, node, st):
        raise OutOfSubset("generator expression outside all()/any()", node)


class VQconj(V):
    """conjunction of a plain formula and a quantified one (list equality)."""
    kind = "qconj"

    def __init__(self, plain, q):
        self.plain, self.q = plain, q
