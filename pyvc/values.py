"""Symbolic values, heap cells and the z3 vocabulary used by pyvc.

Value model (DESIGN.md 2.1):
  int   -> mathematical Int          bool -> Bool          None -> VNone
  str   -> String (code points)      list -> HList(n, Array Int T) or HCList (static length)
  dynamically typed values -> PyVal datatype
  objects -> HObj records in a path-local heap
"""
import itertools
import z3

_counter = itertools.count()


def fresh_name(base):
    return "%s!%d" % (base, next(_counter))


def reset_names():
    global _counter
    _counter = itertools.count()


# --------------------------------------------------------------------------
# PyVal: tagged union for dynamically typed values (attribute values, YAML)
PyVal = z3.Datatype("PyVal")
PyVal.declare("pnone")
PyVal.declare("pbool", ("pb", z3.BoolSort()))
PyVal.declare("pint", ("pi", z3.IntSort()))
PyVal.declare("pstr", ("ps", z3.StringSort()))
PyVal.declare("pother", ("po", z3.IntSort()))  # float, list, dict, object: opaque identity
PyVal = PyVal.create()

StrS = z3.StringSort()
IntS = z3.IntSort()
BoolS = z3.BoolSort()

# uninterpreted vocabulary -------------------------------------------------
REP = z3.Function("py_rep", StrS, IntS, StrS)            # s * n
LSTRIP = z3.Function("py_lstrip", StrS, StrS)
RSTRIP = z3.Function("py_rstrip", StrS, StrS)
WSPRE = z3.Function("py_wsprefix", StrS, StrS)
WSSUF = z3.Function("py_wssuffix", StrS, StrS)
ALLWS = z3.Function("py_allws", StrS, BoolS)             # every char is whitespace (abstract set)
ISWS1 = z3.Function("py_isws1", StrS, BoolS)             # single char is whitespace


class V(object):
    kind = "?"


class VInt(V):
    kind = "int"

    def __init__(self, e):
        self.e = z3.IntVal(e) if isinstance(e, int) else e

    def __repr__(self):
        return "VInt(%s)" % self.e


class VBool(V):
    kind = "bool"

    def __init__(self, e):
        self.e = z3.BoolVal(e) if isinstance(e, bool) else e

    def __repr__(self):
        return "VBool(%s)" % self.e


class VStr(V):
    kind = "str"

    def __init__(self, e):
        self.e = z3.StringVal(e) if isinstance(e, str) else e

    def __repr__(self):
        return "VStr(%s)" % self.e


class VNone(V):
    kind = "none"

    def __repr__(self):
        return "VNone"


class VTuple(V):
    kind = "tuple"

    def __init__(self, items, names=None):
        self.items = list(items)
        self.names = list(names) if names else None      # field names of a collections.namedtuple value

    def __repr__(self):
        return "VTuple(%r)" % (self.items,)


class VRef(V):
    """Reference to a heap cell (list, dict, object)."""
    kind = "ref"

    def __init__(self, oid):
        self.oid = oid

    def __repr__(self):
        return "VRef(%s)" % self.oid


class VPy(V):
    """Dynamically typed value (PyVal datatype)."""
    kind = "py"

    def __init__(self, e):
        self.e = e

    def __repr__(self):
        return "VPy(%s)" % self.e


class VOpt(V):
    """A value that is None when `isnone` holds, otherwise `val` (val: VStr/VInt/VRef...)."""
    kind = "opt"

    def __init__(self, isnone, val):
        self.isnone = isnone
        self.val = val

    def __repr__(self):
        return "VOpt(%s, %r)" % (self.isnone, self.val)


class VFun(V):
    """Callable: fn(ex, state, args, kwargs, node) -> V"""
    kind = "fun"

    def __init__(self, name, fn):
        self.name = name
        self.fn = fn

    def __repr__(self):
        return "VFun(%s)" % self.name


class VNS(V):
    """a module or class of the repository, for reading constants: (module name, path inside it)"""
    kind = "ns"

    def __init__(self, module, path=()):
        self.module, self.path = module, tuple(path)


class VQ(V):
    """Quantified boolean: forall var in [lo, hi): body(var). Only valid as a whole contract clause."""
    kind = "q"

    def __init__(self, lo, hi, body, sort="int", guard=None):
        self.lo, self.hi, self.body = lo, hi, body   # lo/hi z3 Int, body: z3 Int -> z3 Bool
        self.sort, self.guard = sort, guard          # sort "str": quantifier over the keys of a dict (guard = membership)


# heap cells ----------------------------------------------------------------
SORTS = {"str": StrS, "int": IntS, "bool": BoolS, "py": PyVal, "liststr": IntS}
# immutable symbolic lists of strings identified by an integer (values stored inside symbolic dicts)
SL_LEN = z3.Function("sl_len", IntS, IntS)
SL_ARR = z3.Function("sl_arr", IntS, z3.ArraySort(IntS, StrS))


class VSList(V):
    """value of kind liststr before it is given a heap cell"""
    kind = "liststr"

    def __init__(self, e):
        self.e = e


def wrap(kind, e):
    if kind == "liststr":
        return VSList(e)
    return {"str": VStr, "int": VInt, "bool": VBool, "py": VPy}[kind](e)


class HList(object):
    """Symbolic-length list of scalars: (n, arr)."""

    def __init__(self, ek, n, arr):
        self.ek, self.n, self.arr = ek, n, arr

    def __repr__(self):
        return "HList<%s>(%s)" % (self.ek, self.n)


class HCList(object):
    """List whose length is static on this path; items are arbitrary values."""

    def __init__(self, items):
        self.items = list(items)

    def __repr__(self):
        return "HCList(%r)" % (self.items,)


class HObj(object):
    def __init__(self, cls, fields):
        self.cls = cls
        self.f = dict(fields)

    def __repr__(self):
        return "HObj<%s>(%s)" % (self.cls, sorted(self.f))


class HRecList(object):
    """Symbolic-length list of records (objects with scalar / optional-scalar fields), one array per field.
    Read-only: elements are materialised as fresh objects on iteration / indexing."""

    def __init__(self, n, cols):
        self.n, self.cols = n, cols

    def elem(self, k, st):
        f = {}
        for fld, (mode, kind, nonearr, arr) in self.cols.items():
            v = wrap(kind, z3.Select(arr, k))
            f[fld] = VOpt(z3.Select(nonearr, k), v) if mode == "opt" else v
        return st.alloc(HObj("Record", f))


class HOpaque(object):
    """A cell whose content is unknown after havoc (e.g. a list of object references); any read is out of subset."""

    def __repr__(self):
        return "HOpaque"


class HDict(object):
    """Dict with string keys. keys: Array String Bool; vals: Array String T (ek) or
    concrete dict when `items` is not None."""

    def __init__(self, ek=None, keys=None, vals=None, items=None, default=False, size=None):
        self.ek, self.keys, self.vals, self.items = ek, keys, vals, items
        self.size = size           # z3 Int: number of keys (symbolic dicts), maintained by stores
        # ek may be a tuple ("tuple", k1, k2, ...): then vals is a list of arrays, one per component
        self.default = default     # collections.defaultdict(lambda: None): a missing key reads as None

    def __repr__(self):
        return "HDict(%s)" % (self.ek if self.items is None else sorted(self.items))


ITERIDX = z3.Function("dictiter_idx", StrS, IntS)     # position of a key in the enumeration of a dict loop


def fresh(kind, base="v"):
    nm = fresh_name(base)
    if kind == "int":
        return VInt(z3.Int(nm))
    if kind == "str":
        return VStr(z3.String(nm))
    if kind == "bool":
        return VBool(z3.Bool(nm))
    if kind == "py":
        return VPy(z3.Const(nm, PyVal))
    raise ValueError(kind)


def py_str_of_int(e):
    """str(int) for a mathematical integer."""
    return z3.If(e >= 0, z3.IntToStr(e), z3.Concat(z3.StringVal("-"), z3.IntToStr(-e)))
