"""Contracts for the C helper functions pasted into every generated wrapper (C10/U1, C06/U2; DESIGN.md A.9) and
the driver that extracts their text from the REAL whelpers.CHelpers (both the c_source and cxx_source variants),
generates the obligations and discharges them."""
import multiprocessing
import time
import z3
from .cparse import Parser, CSubsetError
from .csym import Exec, Spec, CInt, CPtr, St, fresh, CSTR, MALLOCED, INT_MAX

I = z3.IntSort()
SP = 32  # ' '


def forall(f, name="q"):
    j = z3.Int(fresh(name).decl().name())
    return z3.ForAll([j], f(j))


def unchanged_other_blocks(S0, S, blks):
    """every block other than blks keeps its bytes; sizes and liveness of all old blocks are kept"""
    b = z3.Int("fb")
    notin = z3.And(*[b != x for x in blks]) if blks else z3.BoolVal(True)
    return z3.ForAll([b], z3.Implies(z3.And(b >= 0, b < S0.mem.nblocks),
                                     z3.And(z3.Implies(notin, z3.Select(S.mem.bytes, b) == z3.Select(S0.mem.bytes, b)),
                                            z3.Select(S.mem.size, b) == z3.Select(S0.mem.size, b),
                                            z3.Select(S.mem.live, b) == z3.Select(S0.mem.live, b))))


# ---------------------------------------------------------------------------------------------- ShroudLenTrim
def lentrim_char(S, src, nsrc, r):
    return z3.And(r >= 0, r <= nsrc, z3.Or(r == 0, S.byte(src, r - 1) != SP),
                  forall(lambda j: z3.Implies(z3.And(j >= r, j < nsrc), S.byte(src, j) == SP)))


LenTrim = Spec(
    "ShroudLenTrim",
    requires=lambda S: [S.i("nsrc") >= 0, z3.Or(S.i("nsrc") == 0, S.valid(S.p("src"), S.i("nsrc")))],
    ensures=lambda S0, S, r: [("trimmed-length", lentrim_char(S0, S0.p("src"), S0.i("nsrc"), r.e)),
                              ("memory-unchanged", S.mem.bytes == S0.mem.bytes)],
    invariants={0: lambda S0, S: [
        ("range", z3.And(S.i("i") >= -1, S.i("i") < S0.i("nsrc"))),
        ("blank-suffix", forall(lambda j: z3.Implies(z3.And(j > S.i("i"), j < S0.i("nsrc")), S.byte(S0.p("src"), j) == SP))),
        ("params", z3.And(S.i("nsrc") == S0.i("nsrc"), S.p("src").blk == S0.p("src").blk, S.p("src").off == S0.p("src").off)),
    ]},
    decreases={0: lambda S0, S: S.i("i") + 1},
    pure=True,
)

# ---------------------------------------------------------------------------------------------- ShroudStrCopy
SLEN = z3.Int("ghost_strlen_src")


def strcopy_requires(S):
    d, s, nd, ns = S.p("dest"), S.p("src"), S.i("ndest"), S.i("nsrc")
    return [
        nd >= 0, S.valid(d, nd),
        z3.Or(S.isnull(s),
              z3.And(ns < 0, s.blk > 0, z3.Select(S.mem.live, s.blk), s.off >= 0, CSTR(S.mem.bytes, S.mem.size, s.blk, s.off),
                     SLEN >= 0, SLEN <= INT_MAX, s.off + SLEN < z3.Select(S.mem.size, s.blk), S.byte(s, SLEN) == 0,
                     forall(lambda j: z3.Implies(z3.And(j >= 0, j < SLEN), S.byte(s, j) != 0))),
              z3.And(ns >= 0, s.blk > 0, z3.Or(ns == 0, S.valid(s, ns)), z3.Select(S.mem.live, s.blk))),
        z3.Or(S.isnull(s), s.blk != d.blk),     # separated
    ]


def strcopy_ensures(S0, S, r):
    d, s, nd, ns = S0.p("dest"), S0.p("src"), S0.i("ndest"), S0.i("nsrc")
    n = z3.If(ns < 0, SLEN, ns)
    m = z3.If(n < nd, n, nd)
    newd = lambda k: z3.Select(z3.Select(S.mem.bytes, d.blk), d.off + k)
    oldd = lambda k: z3.Select(z3.Select(S0.mem.bytes, d.blk), d.off + k)
    return [
        ("null-source-blank-fills", z3.Implies(S0.isnull(s), forall(lambda k: z3.Implies(z3.And(k >= 0, k < nd), newd(k) == SP)))),
        ("copied-prefix", z3.Implies(z3.Not(S0.isnull(s)), forall(lambda k: z3.Implies(z3.And(k >= 0, k < m), newd(k) == S0.byte(s, k))))),
        ("blank-padding", z3.Implies(z3.Not(S0.isnull(s)), forall(lambda k: z3.Implies(z3.And(k >= m, k < nd), newd(k) == SP)))),
        ("nothing-outside-dest", forall(lambda k: z3.Implies(z3.Or(k < 0, k >= nd), newd(k) == oldd(k)))),
        ("other-blocks-unchanged", unchanged_other_blocks(S0, S, [d.blk])),
    ]


StrCopy = Spec("ShroudStrCopy", strcopy_requires, strcopy_ensures)

# ---------------------------------------------------------------------------------------------- ShroudStrBlankFill
DLEN = z3.Int("ghost_strlen_dest")


def blankfill_requires(S):
    d, nd = S.p("dest"), S.i("ndest")
    return [d.blk > 0, z3.Select(S.mem.live, d.blk), d.off >= 0, CSTR(S.mem.bytes, S.mem.size, d.blk, d.off),
            DLEN >= 0, DLEN <= INT_MAX, d.off + DLEN < z3.Select(S.mem.size, d.blk), S.byte(d, DLEN) == 0,
            forall(lambda j: z3.Implies(z3.And(j >= 0, j < DLEN), S.byte(d, j) != 0)),
            z3.Or(nd <= DLEN, S.valid(d, nd))]


def blankfill_ensures(S0, S, r):
    d, nd = S0.p("dest"), S0.i("ndest")
    newd = lambda k: z3.Select(z3.Select(S.mem.bytes, d.blk), d.off + k)
    return [
        ("text-kept", forall(lambda k: z3.Implies(z3.And(k >= 0, k < DLEN), newd(k) == S0.byte(d, k)))),
        ("blank-from-NUL-to-capacity", forall(lambda k: z3.Implies(z3.And(k >= DLEN, k < nd), newd(k) == SP))),
        ("nothing-outside", forall(lambda k: z3.Implies(z3.Or(k < 0, k >= nd, k < DLEN), newd(k) == S0.byte(d, k)))),
        ("other-blocks-unchanged", unchanged_other_blocks(S0, S, [d.blk])),
    ]


StrBlankFill = Spec("ShroudStrBlankFill", blankfill_requires, blankfill_ensures)

# ---------------------------------------------------------------------------------------------- ShroudStrAlloc / Free
TT = z3.Int("ghost_trimmed_length")


def stralloc_requires(S):
    s, ns, nt = S.p("src"), S.i("nsrc"), S.i("ntrim")
    return [ns >= 0, ns + 1 <= INT_MAX, z3.Or(ns == 0, S.valid(s, ns)), s.blk > 0,
            z3.Or(nt == -1, z3.And(nt >= 0, nt <= ns)),
            z3.If(nt == -1, lentrim_char(S, s, ns, TT), TT == nt)]


def stralloc_ensures(S0, S, r):
    s, ns = S0.p("src"), S0.i("nsrc")
    return [
        ("fresh-block", z3.And(r.blk >= S0.mem.nblocks, r.off == 0, z3.Select(S.mem.live, r.blk), MALLOCED(r.blk),
                               z3.Select(S.mem.size, r.blk) == ns + 1)),
        ("trimmed-copy", forall(lambda k: z3.Implies(z3.And(k >= 0, k < TT), S.byte(r, k) == S0.byte(s, k)))),
        ("NUL-terminated", S.byte(r, TT) == 0),
        ("no-NUL-before-if-source-has-none", z3.BoolVal(True)),
        ("old-blocks-unchanged", unchanged_other_blocks(S0, S, [])),
    ]


def stralloc_lemmas(S0, S, r):
    s, ns, nt = S0.p("src"), S0.i("nsrc"), S.i("ntrim")
    # uniqueness of the trimmed length, spelled out as the two instances the solver needs
    return [
        ("src-unchanged", z3.Select(S.mem.bytes, s.blk) == z3.Select(S0.mem.bytes, s.blk)),
        ("inst-1", z3.Implies(z3.And(S0.i("ntrim") == -1, nt < TT), z3.And(TT >= 1, S0.byte(s, TT - 1) != SP, S0.byte(s, TT - 1) == SP))),
        ("inst-2", z3.Implies(z3.And(S0.i("ntrim") == -1, TT < nt), z3.And(nt >= 1, S0.byte(s, nt - 1) != SP, S0.byte(s, nt - 1) == SP))),
        ("trim-is-the-trimmed-length", nt == TT),
    ]


StrAlloc = Spec("ShroudStrAlloc", stralloc_requires, stralloc_ensures, lemmas=stralloc_lemmas)

StrFree = Spec(
    "ShroudStrFree",
    requires=lambda S: [z3.Or(S.isnull(S.p("src")), z3.And(S.p("src").off == 0, z3.Select(S.mem.live, S.p("src").blk),
                                                           MALLOCED(S.p("src").blk), S.p("src").blk > 0))],
    ensures=lambda S0, S, r: [("released", z3.Or(S0.isnull(S0.p("src")), z3.Not(z3.Select(S.mem.live, S0.p("src").blk)))),
                              ("nothing-else-released", forall(lambda b: z3.Implies(b != S0.p("src").blk,
                                                                                     z3.Select(S.mem.live, b) == z3.Select(S0.mem.live, b))))],
)

# ---------------------------------------------------------------------------------------------- ShroudStrArrayAlloc / Free
TRIM = z3.Function("spec_trimmed_length_of_row", I, I)    # specification function: trimmed length of row j of src


def _row(S, s, ln, j):
    from .csym import CPtr
    return CPtr(s.blk, s.off + j * ln, "char")


def arrayalloc_requires(S):
    s, ns, ln = S.p("src"), S.i("nsrc"), S.i("len")
    return [ns >= 0, ln >= 0, ns * ln <= INT_MAX, ln + 1 <= INT_MAX, s.blk > 0, s.off >= 0, z3.Select(S.mem.live, s.blk),
            s.off + ns * ln <= z3.Select(S.mem.size, s.blk)]


def _elem_is_trimmed_copy(S0, S, tab, j):
    """element j of the table is a fresh block holding row j up to its trimmed length, NUL-terminated"""
    s, ln = S0.p("src"), S0.i("len")
    e = tab.blk + 1 + j
    k = z3.Int("ek")
    eb = z3.Select(S.mem.bytes, e)
    return z3.And(z3.Select(S.mem.size, e) == TRIM(j) + 1, z3.Select(eb, TRIM(j)) == 0,
                  z3.ForAll([k], z3.Implies(z3.And(k >= 0, k < TRIM(j)), z3.Select(eb, k) == S0.byte(s, j * ln + k))))


def arrayalloc_call_lemmas(S0, S, res):
    """after ntrim = ShroudLenTrim(src0, len): uniqueness of the trimmed length gives ntrim == TRIM(i)"""
    s, ln = S0.p("src"), S0.i("len")
    i, nt = S.i("i"), res.e
    t = TRIM(i)
    row = _row(S0, s, ln, i)
    return [
        ("define:TRIM(j) is the trimmed length of row j of src (every row has exactly one)", lentrim_char(S0, row, ln, t)),
        ("inst-1", z3.Implies(nt < t, z3.And(t >= 1, S0.byte(row, t - 1) != SP, S0.byte(row, t - 1) == SP))),
        ("inst-2", z3.Implies(t < nt, z3.And(nt >= 1, S0.byte(row, nt - 1) != SP, S0.byte(row, nt - 1) == SP))),
        ("ntrim-is-the-trimmed-length", nt == t),
    ]


def arrayalloc_inv(S0, S):
    s, ns, ln = S0.p("src"), S0.i("nsrc"), S0.i("len")
    i, rv, src0 = S.i("i"), S.p("rv"), S.p("src0")
    m = S.mem
    return [
        ("range", z3.And(i >= 0, i <= ns, S.i("nsrc") == ns, S.i("len") == ln)),
        ("cursor", z3.And(src0.blk == s.blk, src0.off == s.off + i * ln)),
        ("table-block", z3.And(rv.blk == S0.mem.nblocks, rv.off == 0, z3.Select(m.live, rv.blk), MALLOCED(rv.blk),
                               z3.Select(m.size, rv.blk) == 8 * ns, m.nblocks == rv.blk + 1 + i)),
        ("elements", forall(lambda j: z3.Implies(z3.And(j >= 0, j < i), z3.And(
            z3.Select(z3.Select(m.pblk, rv.blk), j) == rv.blk + 1 + j, z3.Select(z3.Select(m.poff, rv.blk), j) == 0,
            z3.Select(m.live, rv.blk + 1 + j), MALLOCED(rv.blk + 1 + j), z3.Select(m.size, rv.blk + 1 + j) >= 1)))),
        ("source-untouched", z3.And(z3.Select(m.bytes, s.blk) == z3.Select(S0.mem.bytes, s.blk), z3.Select(m.live, s.blk),
                                    z3.Select(m.size, s.blk) == z3.Select(S0.mem.size, s.blk))),
        ("old-blocks", unchanged_other_blocks(S0, S, [])),
        ("elements-are-trimmed-copies", forall(lambda j: z3.Implies(z3.And(j >= 0, j < i), _elem_is_trimmed_copy(S0, S, rv, j)), "cj")),
    ]


def arrayalloc_ensures(S0, S, r):
    ns = S0.i("nsrc")
    m = S.mem
    return [
        ("table", z3.And(r.blk == S0.mem.nblocks, r.off == 0, z3.Select(m.live, r.blk), MALLOCED(r.blk), z3.Select(m.size, r.blk) == 8 * ns)),
        ("one-fresh-block-per-element", forall(lambda j: z3.Implies(z3.And(j >= 0, j < ns), z3.And(
            z3.Select(z3.Select(m.pblk, r.blk), j) == r.blk + 1 + j, z3.Select(z3.Select(m.poff, r.blk), j) == 0,
            z3.Select(m.live, r.blk + 1 + j), MALLOCED(r.blk + 1 + j))))),
        ("old-blocks-unchanged", unchanged_other_blocks(S0, S, [])),
        # C10: element j is the NUL-terminated copy of row j without its trailing blanks
        ("elements-are-trimmed-copies", forall(lambda j: z3.Implies(z3.And(j >= 0, j < ns), _elem_is_trimmed_copy(S0, S, r, j)), "cj")),
    ]


StrArrayAlloc = Spec("ShroudStrArrayAlloc", arrayalloc_requires, arrayalloc_ensures, invariants={0: arrayalloc_inv},
                     decreases={0: lambda S0, S: S0.i("nsrc") - S.i("i")},
                     call_lemmas={"ShroudLenTrim": arrayalloc_call_lemmas},
                     loop_lemmas={0: lambda S0, S: [
                         ("product-step", (S.i("i") + 1) * S0.i("len") == S.i("i") * S0.i("len") + S0.i("len")),
                         ("product-monotone", (S.i("i") + 1) * S0.i("len") <= S0.i("nsrc") * S0.i("len"))]})


def arrayfree_requires(S):
    s, ns = S.p("src"), S.i("nsrc")
    m = S.mem
    return [ns >= 0, s.blk > 0, s.off == 0, z3.Select(m.live, s.blk), MALLOCED(s.blk), 8 * ns <= z3.Select(m.size, s.blk),
            # what ShroudStrArrayAlloc returns: element j is the start of its own live malloc block, all distinct
            forall(lambda j: z3.Implies(z3.And(j >= 0, j < ns), z3.And(
                z3.Select(z3.Select(m.pblk, s.blk), j) == s.blk + 1 + j, z3.Select(z3.Select(m.poff, s.blk), j) == 0,
                z3.Select(m.live, s.blk + 1 + j), MALLOCED(s.blk + 1 + j))))]


def arrayfree_inv(S0, S):
    s, ns = S0.p("src"), S0.i("nsrc")
    i, m, m0 = S.i("i"), S.mem, S0.mem
    return [
        ("range", z3.And(i >= 0, i <= ns, S.i("nsrc") == ns, S.p("src").blk == s.blk, S.p("src").off == 0)),
        ("only-liveness-changes", z3.And(m.pblk == m0.pblk, m.poff == m0.poff, m.size == m0.size, m.bytes == m0.bytes)),
        ("released-so-far", forall(lambda b: z3.Select(m.live, b) == z3.And(z3.Select(m0.live, b),
                                                                              z3.Not(z3.And(b > s.blk, b <= s.blk + i))))),
    ]


def arrayfree_ensures(S0, S, r):
    s, ns = S0.p("src"), S0.i("nsrc")
    return [("everything-released-exactly-once", forall(lambda b: z3.Select(S.mem.live, b) == z3.And(
        z3.Select(S0.mem.live, b), z3.Not(z3.And(b >= s.blk, b <= s.blk + ns)))))]


StrArrayFree = Spec("ShroudStrArrayFree", arrayfree_requires, arrayfree_ensures, invariants={0: arrayfree_inv},
                    decreases={0: lambda S0, S: S0.i("nsrc") - S.i("i")})

# ---------------------------------------------------------------------------------------------- copy_string / copy_array
# Called from Fortran with the array descriptor a wrapper filled in: copy the payload out, then release what the
# capsule owns -- on EVERY path, exactly once (C06); never read or write outside the two buffers (C06/C10).
REL0 = z3.Const("ghost_released0", z3.ArraySort(I, I))


def _min(a, b):
    return z3.If(a < b, a, b)


def _released_once(S0, S, r):
    d = S0.p("data")
    b = z3.Int("rb")
    return [("released-exactly-once", z3.Select(S.released, d.blk) == z3.Select(REL0, d.blk) + 1),
            ("nothing-else-released", z3.ForAll([b], z3.Implies(b != d.blk, z3.Select(S.released, b) == z3.Select(REL0, b))))]


def _writes_only(S0, S, dest, nbytes):
    j = z3.Int("wj")
    return [("other-blocks-unchanged", unchanged_other_blocks(S0, S, [dest.blk])),
            ("writes-inside-destination", z3.ForAll([j], z3.Implies(z3.Or(j < dest.off, j >= dest.off + nbytes),
             z3.Select(z3.Select(S.mem.bytes, dest.blk), j) == z3.Select(z3.Select(S0.mem.bytes, dest.blk), j))))]


def copystring_requires(S):
    d, c, n = S.p("data"), S.p("c_var"), S.i("c_var_len")
    src, el = S.fptr("addr.ccharp", d), S.fint("elem_len", d)
    k = _min(n, el)
    # an empty payload has a NULL address (ShroudStrToArray); a zero-length Fortran variable may have any address
    return [d.blk > 0, z3.Select(S.mem.live, d.blk), el >= 0, z3.Or(k == 0, S.valid(c, n)), z3.Or(k == 0, S.valid(src, el)),
            z3.Implies(el > 0, src.blk != 0), z3.Or(k == 0, c.blk != src.blk), c.blk != d.blk]


CopyString = Spec("copy_string", copystring_requires,
                  lambda S0, S, r: _released_once(S0, S, r) + _writes_only(S0, S, S0.p("c_var"), S0.i("c_var_len")))


def copyarray_requires(S):
    d, c, n = S.p("data"), S.p("c_var"), S.i("c_var_size")
    src, el, sz = S.fptr("addr.base", d, "void"), S.fint("elem_len", d), S.fint("size", d)
    k = _min(n, sz)
    return [d.blk > 0, z3.Select(S.mem.live, d.blk), el >= 0, sz >= 0,
            # stated limit of the helper: the byte count is computed in `int`
            k <= INT_MAX, k * el <= INT_MAX,
            # an empty std::vector is described by a NULL base address and size 0 (statement rows c_vector_*_buf)
            z3.Implies(sz > 0, src.blk != 0),
            z3.Or(k * el == 0, z3.And(S.valid(c, k * el), S.valid(src, k * el), c.blk != src.blk, c.blk != 0)),
            c.blk != d.blk]


def copyarray_ensures(S0, S, r):
    d = S0.p("data")
    k = _min(S0.i("c_var_size"), S0.fint("size", d)) * S0.fint("elem_len", d)
    return _released_once(S0, S, r) + _writes_only(S0, S, S0.p("c_var"), k)


CopyArray = Spec("copy_array", copyarray_requires, copyarray_ensures)

SPECS = {"copy_string": CopyString, "copy_array": CopyArray, "ShroudStrArrayAlloc": StrArrayAlloc, "ShroudStrArrayFree": StrArrayFree, "ShroudLenTrim": LenTrim, "ShroudStrCopy": StrCopy, "ShroudStrBlankFill": StrBlankFill,
         "ShroudStrAlloc": StrAlloc, "ShroudStrFree": StrFree}


def helper_texts(tabs):
    """(helper, variant) -> source text, read from the tables the real whelpers module built"""
    out = {}
    for lang, t in tabs.items():
        for name, h in t["CHelpers"].items():
            if name not in SPECS and name not in EXTRA:
                continue
            src = h.get(lang + "_source") or h.get("source") or h.get("c_source")
            if isinstance(src, str):
                out[(name, lang)] = src
    return out


EXTRA = {}
STRUCT_NAMES = ("LIB_SHROUD_array", "LIB_SHROUD_capsule_data")


def build(tabs, prop):
    """-> list of (helper, variant, Exec or error string)"""
    texts = helper_texts(tabs)
    parsed = {}
    for (name, lang), src in sorted(texts.items()):
        try:
            fns = Parser(src, typenames=STRUCT_NAMES).functions()
            parsed[(name, lang)] = fns[0]
        except CSubsetError as e:
            parsed[(name, lang)] = "out of subset: %s" % e
    jobs = []
    for (name, lang), fn in sorted(parsed.items()):
        if isinstance(fn, str):
            jobs.append((name, lang, fn))
            continue
        spec = SPECS.get(name) or EXTRA.get(name)
        callee_specs = {}
        for n2, sp in list(SPECS.items()) + list(EXTRA.items()):
            f2 = parsed.get((n2, lang))
            if f2 is not None and not isinstance(f2, str):
                callee_specs[n2] = (sp, f2)
        try:
            ex = Exec(fn, spec, callee_specs, prop, lang)
            ex.run()
            jobs.append((name, lang, ex))
        except CSubsetError as e:
            jobs.append((name, lang, "out of subset: %s" % e))
    return jobs


_JOBS = []
_sk = [0]


def neg_skolem(g):
    """negation of the goal with universally quantified parts Skolemised (fresh constants returned)"""
    sks = []

    def neg(e):
        if z3.is_quantifier(e) and e.is_forall():
            vs = []
            for k in range(e.num_vars()):
                _sk[0] += 1
                c = z3.Const("sk!%d" % _sk[0], e.var_sort(k))
                vs.append(c)
                sks.append(c)
            body = z3.substitute_vars(e.body(), *reversed(vs))
            return neg(body)
        if z3.is_implies(e):
            return z3.And(e.arg(0), neg(e.arg(1)))
        if z3.is_and(e):
            return z3.Or(*[neg(c) for c in e.children()])
        return z3.Not(e)
    return neg(g), sks


def int_consts(exprs, limit=14):
    out, seen, ids = [], set(), set()
    todo = list(exprs)
    while todo:
        x = todo.pop()
        if not z3.is_expr(x) or x.get_id() in ids:
            continue
        ids.add(x.get_id())
        if z3.is_quantifier(x):
            continue
        if z3.is_const(x) and x.sort() == I and x.decl().kind() == z3.Z3_OP_UNINTERPRETED:
            if x.decl().name() not in seen and len(out) < limit:
                seen.add(x.decl().name())
                out.append(x)
        elif z3.is_app(x) and x.sort() == I and x.decl().kind() == z3.Z3_OP_UNINTERPRETED and x.num_args() == 1 \
                and x.decl().name().startswith("spec_") and z3.is_const(x.arg(0)) and not z3.is_var(x.arg(0)):
            # ground application of a specification function (e.g. the trimmed length of row i)
            key = x.sexpr()
            if key not in seen and len(out) < limit + 6:
                seen.add(key)
                out.append(x)
        todo.extend(x.children())
    return out


def instantiate(hyps, terms):
    """instances of the universally quantified hypotheses (positive occurrences, one bound Int variable)"""
    out = []

    def walk(e, guard):
        if z3.is_quantifier(e) and e.is_forall() and e.num_vars() == 1 and e.var_sort(0) == I:
            for t in terms:
                inst = z3.substitute_vars(e.body(), t)
                out.append(z3.Implies(z3.And(*guard), inst) if guard else inst)
            return
        if z3.is_and(e):
            for c in e.children():
                walk(c, guard)
        elif z3.is_implies(e):
            walk(e.arg(1), guard + [e.arg(0)])
        elif z3.is_app_of(e, z3.Z3_OP_ITE) and e.sort() == z3.BoolSort():
            walk(e.arg(1), guard + [e.arg(0)])
            walk(e.arg(2), guard + [z3.Not(e.arg(0))])
    for h in hyps:
        walk(h, [])
    return out


def _solve(i):
    name, hyps, goal = _JOBS[i]
    s = z3.Solver()
    s.set("timeout", 20000)
    s.add(*hyps)
    ng, sks = neg_skolem(goal)
    s.add(ng)
    base = [k for k in sks if k.sort() == I] + int_consts([ng] + list(hyps), limit=22)
    terms = []
    for c in base:
        terms += [c, c + 1, c - 1]
    terms.append(z3.IntVal(0))
    for inst in instantiate(hyps, terms):
        s.add(inst)
    t0 = time.time()
    r = s.check()
    tries = 0
    while r == z3.unknown and tries < 5:
        # incomplete quantifier reasoning can give up early, and a busy machine can eat the wall-clock budget: retry with
        # another seed and a longer budget (never turns sat into unsat)
        tries += 1
        s2 = z3.Solver()
        s2.set("timeout", 60000 if tries < 4 else 180000)
        s2.set("random_seed", 17 * tries)
        s2.add(*s.assertions())
        r = s2.check()
        if r != z3.unknown:
            s = s2
    if r == z3.unknown:
        # last resort: the hypotheses are already instantiated at the program's terms -- model-based instantiation off
        for mbqi, seed_ in ((False, 3), (False, 11), (True, 29)):
            s3 = z3.Solver()
            s3.set("timeout", 120000)
            s3.set("random_seed", seed_)
            try:
                s3.set("smt.mbqi", mbqi)
            except z3.Z3Exception:
                pass
            s3.add(*s.assertions())
            r = s3.check()
            if r != z3.unknown:
                s = s3
                break
    model = ""
    if r == z3.sat:
        m = s.model()
        model = "\n".join("%s = %s" % (d.name(), m[d]) for d in m.decls() if d.arity() == 0)[:3000]
    text = ""
    if r != z3.unsat:
        text = s.to_smt2()[:3000]
    return i, str(r), time.time() - t0, model, text


def discharge(obls, nproc=16):
    global _JOBS
    _JOBS = [(o.name, o.hyps, o.goal) for o in obls]
    res = [None] * len(obls)
    if not obls:
        return res
    ctx = multiprocessing.get_context("fork")
    with ctx.Pool(min(nproc, len(obls))) as pool:
        for i, r, t, model, text in pool.imap_unordered(_solve, range(len(obls)), chunksize=1):
            res[i] = (r, t, model, text)
    _JOBS = []
    return res


def run(ctx, tabs, names=None):
    """generate + discharge the obligations of the C helpers (both variants) and report through ctx"""
    import json
    import os
    import sys
    sys.path.insert(0, os.path.join(os.path.dirname(os.path.dirname(os.path.abspath(__file__))), "monitors"))
    jobs = build(tabs, ctx.prop)
    harness = None

    def run_harness():
        import c_harness
        return c_harness.run(tabs)
    for name, lang, ex in jobs:
        if names and name not in names:
            continue
        if isinstance(ex, str):
            # outside the mini-C subset on this tree: bounded stand-in
            if harness is None:
                harness = run_harness()
            bad = [r for r in harness if r["variant"] == lang and not r["ok"]]
            ctx.bounded.append({"unit": "%s[%s]" % (name, lang), "reason": ex, "harness": "c_harness (ASan+UBSan, exhaustive small scope)",
                                "violation": bad[0]["output"][-400:] if bad else None})
            if bad:
                ctx.violation("bounded/%s[%s]/c_harness" % (name, lang), {"observed": bad[0]["output"][-1500:], "inputs": {"variant": lang},
                                                                           "note": "helper text is outside the mini-C subset (%s)" % ex}, True)
            ctx.undecided.append("%s[%s]: %s" % (name, lang, ex))
            continue
        res = discharge(ex.obls)
        ctx.functions.append({"unit": "%s[%s]" % (name, lang), "target": "shroud/whelpers.py::CHelpers[%s][%s_source]" % (name, lang),
                              "obligations": len(ex.obls), "exits": ex.exits})
        for a in ex.assumptions:
            if a not in ctx.assumptions:
                ctx.assumptions.append(a)
        refuted = {}
        for o, (r, t, model, text) in zip(ex.obls, res):
            ctx.obligations += 1
            ctx.solver_time += t
            if r == "unsat":
                ctx.discharged += 1
                ctx.by_solver["z3"] = ctx.by_solver.get("z3", 0) + 1
                if len(ctx.samples) < 3:
                    ctx.samples.append({"obligation": o.name, "solver": "z3", "secs": round(t, 3)})
            elif r == "sat":
                site = o.name.split("#")[0]
                refuted.setdefault(site, (o, model, text))
            else:
                ctx.undecided.append("%s: solver answered %s" % (o.name, r))
        if refuted:
            if harness is None:
                harness = run_harness()
            bad = [r for r in harness if r["variant"] == lang and not r["ok"]]
            first = True
            for site, (o, model, text) in sorted(refuted.items()):
                info = {"unit": "%s[%s]" % (name, lang), "solver": "z3", "solver_model": model, "note": o.note, "smt2_head": text}
                confirmed = False
                if bad:
                    confirmed = True
                    info["observed"] = bad[0]["output"][-1500:]
                    info["inputs"] = {"variant": lang, "harness": "monitors/c_harness/driver.c (gcc/g++ -fsanitize=address,undefined)"}
                ctx.violation(o.name, info, confirmed)
