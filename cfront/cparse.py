"""Mini-C front end: parser for the C/C++ subset used by the helper functions held in whelpers.CHelpers.
Anything outside the subset raises CSubsetError (-> the helper is reported out of subset, never skipped silently)."""
import re


class CSubsetError(Exception):
    pass


TOKEN_RX = re.compile(r'''
    (?P<ws>\s+) |
    (?P<num>\d+) |
    (?P<chr>'(?:\\.|[^'\\])') |
    (?P<str>"(?:\\.|[^"\\])*") |
    (?P<id>(?:std::)?[A-Za-z_]\w*) |
    (?P<op>->|\+\+|--|\+=|-=|\*=|<=|>=|==|!=|&&|\|\||[-+*/%<>=!&|?:;,.(){}\[\]])
''', re.X)

TYPE_WORDS = {"const", "char", "int", "void", "size_t", "unsigned", "long", "short", "static", "std::string", "double", "float"}


def preprocess(src):
    src = re.sub(r'/\*.*?\*/', ' ', src, flags=re.S)
    src = re.sub(r'//[^\n]*', ' ', src)
    src = src.replace("\t", " ")
    src = re.sub(r'\{\+', '{', src)
    src = re.sub(r'(^|\n)\s*-\}', r'\1}', src)
    src = re.sub(r'(^|\n)\s*-(?=\S)', r'\1', src)
    src = re.sub(r'\+\s*(\n|$)', r'\1', src)
    return src


def tokenize(src):
    toks = []
    pos = 0
    while pos < len(src):
        m = TOKEN_RX.match(src, pos)
        if not m:
            raise CSubsetError("cannot tokenize at %r" % src[pos:pos + 20])
        pos = m.end()
        k = m.lastgroup
        if k == "ws":
            continue
        toks.append((k, m.group(k)))
    toks.append(("eof", ""))
    return toks


class Node(object):
    def __init__(self, kind, **kw):
        self.kind = kind
        self.__dict__.update(kw)

    def __repr__(self):
        return "%s(%s)" % (self.kind, ", ".join("%s=%r" % (k, v) for k, v in self.__dict__.items() if k != "kind"))


class Parser(object):
    def __init__(self, src, typenames=()):
        self.toks = tokenize(preprocess(src))
        self.i = 0
        self.typenames = set(TYPE_WORDS) | set(typenames)

    def peek(self, k=0):
        return self.toks[self.i + k]

    def next(self):
        t = self.toks[self.i]
        self.i += 1
        return t

    def accept(self, val):
        if self.peek()[1] == val and self.peek()[0] in ("op", "id"):
            self.i += 1
            return True
        return False

    def expect(self, val):
        if not self.accept(val):
            raise CSubsetError("expected %r, found %r" % (val, self.peek()[1]))

    def is_type_start(self, k=0):
        t = self.peek(k)
        return t[0] == "id" and t[1] in self.typenames

    def parse_type(self):
        words = []
        while self.is_type_start():
            words.append(self.next()[1])
        if not words:
            raise CSubsetError("type expected at %r" % (self.peek(),))
        stars = 0
        while self.peek()[1] == "*" or (self.peek()[1] == "const" and stars):
            if self.next()[1] == "*":
                stars += 1
        base = " ".join(w for w in words if w not in ("const", "static"))
        return Node("type", base=base, stars=stars)

    # ---- functions
    def functions(self):
        out = []
        while self.peek()[0] != "eof":
            if self.peek()[1] == "#":
                raise CSubsetError("preprocessor line")
            if self.accept("typedef") or self.accept("struct"):
                raise CSubsetError("struct/typedef definition")
            out.append(self.function())
        return out

    def function(self):
        rtype = self.parse_type()
        name = self.next()
        if name[0] != "id":
            raise CSubsetError("function name expected")
        self.expect("(")
        params = []
        if not self.accept(")"):
            while True:
                t = self.parse_type()
                n = self.next()
                if n[0] != "id":
                    raise CSubsetError("parameter name expected")
                params.append((t, n[1]))
                if self.accept(")"):
                    break
                self.expect(",")
        body = self.block()
        return Node("function", rtype=rtype, name=name[1], params=params, body=body)

    def block(self):
        self.expect("{")
        stmts = []
        while not self.accept("}"):
            stmts.append(self.statement())
        return Node("block", stmts=stmts)

    def statement(self):
        t = self.peek()
        if t[1] == "{":
            return self.block()
        if self.accept("if"):
            self.expect("(")
            c = self.expr()
            self.expect(")")
            a = self.statement()
            b = self.statement() if self.accept("else") else None
            return Node("if", cond=c, then=a, els=b)
        if self.accept("for"):
            self.expect("(")
            init = None
            if not self.accept(";"):
                init = self.decl_or_expr()
                self.expect(";")
            cond = None
            if not self.accept(";"):
                cond = self.expr()
                self.expect(";")
            step = None
            if not self.accept(")"):
                step = self.expr()
                self.expect(")")
            body = self.statement()
            return Node("for", init=init, cond=cond, step=step, body=body)
        if self.accept("while") or self.accept("do") or self.accept("switch") or self.accept("goto"):
            raise CSubsetError("statement %r" % t[1])
        if self.accept("return"):
            e = None
            if not self.accept(";"):
                e = self.expr()
                self.expect(";")
            return Node("return", value=e)
        if self.accept("break"):
            self.expect(";")
            return Node("break")
        s = self.decl_or_expr()
        self.expect(";")
        return s

    def decl_or_expr(self):
        if self.is_type_start() and not (self.peek(1)[1] == "(" ):
            t = self.parse_type()
            n = self.next()
            if n[0] != "id":
                raise CSubsetError("declarator expected")
            init = None
            if self.accept("="):
                init = self.expr()
            if self.peek()[1] == ",":
                raise CSubsetError("multiple declarators")
            return Node("decl", type=t, name=n[1], init=init)
        return Node("exprstmt", e=self.expr())

    # ---- expressions (precedence climbing)
    def expr(self):
        return self.assign()

    def assign(self):
        lhs = self.ternary()
        for op in ("=", "+=", "-=", "*="):
            if self.peek() == ("op", op):
                self.next()
                rhs = self.assign()
                return Node("assign", op=op, lhs=lhs, rhs=rhs)
        return lhs

    def ternary(self):
        c = self.binary(0)
        if self.accept("?"):
            a = self.expr()
            self.expect(":")
            b = self.ternary()
            return Node("cond", c=c, a=a, b=b)
        return c

    LEVELS = [["||"], ["&&"], ["==", "!="], ["<", ">", "<=", ">="], ["+", "-"], ["*", "/", "%"]]

    def binary(self, lvl):
        if lvl == len(self.LEVELS):
            return self.unary()
        lhs = self.binary(lvl + 1)
        while self.peek()[0] == "op" and self.peek()[1] in self.LEVELS[lvl]:
            op = self.next()[1]
            rhs = self.binary(lvl + 1)
            lhs = Node("bin", op=op, a=lhs, b=rhs)
        return lhs

    def unary(self):
        t = self.peek()
        if t[0] == "op" and t[1] in ("-", "!", "*", "&", "++", "--"):
            self.next()
            return Node("un", op=t[1], e=self.unary())
        if t[1] == "sizeof":
            self.next()
            self.expect("(")
            ty = self.parse_type()
            self.expect(")")
            return Node("sizeof", type=ty)
        if t[1] == "(" and self.is_type_start(1):
            self.next()
            ty = self.parse_type()
            self.expect(")")
            return Node("cast", type=ty, e=self.unary())
        if t[1] in ("static_cast", "const_cast", "reinterpret_cast"):
            self.next()
            self.expect("<")
            ty = self.parse_type()
            self.expect(">")
            self.expect("(")
            e = self.expr()
            self.expect(")")
            return self.postfix(Node("cast", type=ty, e=e))
        return self.postfix(self.primary())

    def postfix(self, e):
        while True:
            if self.accept("("):
                args = []
                if not self.accept(")"):
                    while True:
                        args.append(self.assign())
                        if self.accept(")"):
                            break
                        self.expect(",")
                e = Node("call", f=e, args=args)
            elif self.accept("["):
                i = self.expr()
                self.expect("]")
                e = Node("index", a=e, i=i)
            elif self.accept("->"):
                e = Node("member", a=e, name=self.next()[1], arrow=True)
            elif self.accept("."):
                e = Node("member", a=e, name=self.next()[1], arrow=False)
            elif self.peek() == ("op", "++") or self.peek() == ("op", "--"):
                e = Node("post", op=self.next()[1], e=e)
            else:
                return e

    def primary(self):
        t = self.next()
        if t[0] == "num":
            return Node("num", v=int(t[1]))
        if t[0] == "chr":
            body = t[1][1:-1]
            v = {"\\0": 0, "\\n": 10, "\\t": 9, "\\\\": 92, "\\'": 39}.get(body, ord(body) if len(body) == 1 else None)
            if v is None:
                raise CSubsetError("character literal %s" % t[1])
            return Node("num", v=v)
        if t[0] == "id":
            if t[1] in ("NULL", "nullptr"):
                return Node("null")
            return Node("var", name=t[1][5:] if t[1].startswith("std::") else t[1])
        if t == ("op", "("):
            e = self.expr()
            self.expect(")")
            return e
        raise CSubsetError("primary expression at %r" % (t,))
