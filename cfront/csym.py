"""Symbolic execution of the mini-C helper functions into proof obligations (z3; quantifiers over ints/arrays only).

Memory model: a pointer is (block, offset); block 0 is NULL.  Per block: size in bytes (or elements for pointer
arrays), liveness, a byte array, and a pointer array (for char**).  `int` is mathematical with an explicit range
obligation on every arithmetic result (machine arithmetic is CHECKED, not assumed); size_t is 64 bit (LP64) and
sizeof(char *) == 8 (stated assumptions).  malloc is assumed to succeed."""
import z3
from .cparse import CSubsetError

I = z3.IntSort()
B = z3.BoolSort()
AII = z3.ArraySort(I, I)
INT_MIN, INT_MAX = -2 ** 31, 2 ** 31 - 1
SIZE_MAX = 2 ** 64 - 1
_n = [0]


def fresh(base, sort=I):
    _n[0] += 1
    return z3.Const("%s!%d" % (base, _n[0]), sort)


class CInt(object):
    def __init__(self, e, ctype="int"):
        self.e = z3.IntVal(e) if isinstance(e, int) else e
        self.ctype = ctype


class CPtr(object):
    def __init__(self, blk, off, elem="char"):
        self.blk = z3.IntVal(blk) if isinstance(blk, int) else blk
        self.off = z3.IntVal(off) if isinstance(off, int) else off
        self.elem = elem      # "char" | "ptr" | "void"


class Mem(object):
    def __init__(self, size, live, bytes_, pblk, poff, nblocks):
        self.size, self.live, self.bytes, self.pblk, self.poff, self.nblocks = size, live, bytes_, pblk, poff, nblocks

    @staticmethod
    def symbolic(tag="m"):
        return Mem(fresh(tag + "_size", z3.ArraySort(I, I)), fresh(tag + "_live", z3.ArraySort(I, B)),
                   fresh(tag + "_bytes", z3.ArraySort(I, AII)), fresh(tag + "_pblk", z3.ArraySort(I, AII)),
                   fresh(tag + "_poff", z3.ArraySort(I, AII)), fresh(tag + "_nblocks"))

    def copy(self):
        return Mem(self.size, self.live, self.bytes, self.pblk, self.poff, self.nblocks)


class St(object):
    def __init__(self):
        self.env = {}
        self.mem = None
        self.pc = []
        self.trail = ""
        self.fields = {}                               # struct member path -> z3 array: block -> value (read-only members)
        self.released = z3.Const("ghost_released0", z3.ArraySort(I, I))   # ghost: capsule block -> number of releases

    def fork(self, tag=""):
        s = St()
        s.env = dict(self.env)
        s.mem = self.mem.copy()
        s.pc = list(self.pc)
        s.trail = self.trail + tag
        s.fields = self.fields          # members are never written by the helpers under contract: shared
        s.released = self.released
        return s

    def field(self, path, blk, part=""):
        key = path + part
        if key not in self.fields:
            self.fields[key] = z3.Const("field_%s" % key.replace(".", "_"), z3.ArraySort(I, I))
        return z3.Select(self.fields[key], blk)

    def fptr(self, path, ptr, elem="char"):
        """pointer-valued member `path` of the struct ptr points to"""
        return CPtr(self.field(path, ptr.blk, "#blk"), self.field(path, ptr.blk, "#off"), elem)

    def fint(self, path, ptr):
        return self.field(path, ptr.blk)

    # accessors used by contracts
    def i(self, name):
        return self.env[name].e

    def p(self, name):
        return self.env[name]

    def byte(self, ptr, idx):
        return z3.Select(z3.Select(self.mem.bytes, ptr.blk), ptr.off + idx)

    def isnull(self, ptr):
        return ptr.blk == 0

    def valid(self, ptr, n):
        """ptr .. ptr+n lies inside a live block"""
        return z3.And(ptr.blk > 0, z3.Select(self.mem.live, ptr.blk), ptr.off >= 0, n >= 0,
                      ptr.off + n <= z3.Select(self.mem.size, ptr.blk))


# members of the generator's own structs that the helpers read (array descriptor / capsule): kind per member path
STRUCT_FIELDS = {"addr.ccharp": "cptr", "addr.base": "vptr", "elem_len": "size_t", "size": "size_t", "type": "int", "rank": "int",
                 "cxx": "capsule", "addr": "union"}
STRUCT_TYPES = ("SHROUD_array", "SHROUD_capsule_data")


def is_struct_type(base):
    return any(base.endswith(t) for t in STRUCT_TYPES)


class Obl(object):
    def __init__(self, name, hyps, goal, note=""):
        self.name, self.hyps, self.goal, self.note = name, hyps, goal, note


class Spec(object):
    """contract of one helper: callables over states returning lists of z3 formulas"""

    def __init__(self, name, requires, ensures, invariants=None, decreases=None, pure=False, lemmas=None, loop_lemmas=None,
                 call_lemmas=None):
        self.call_lemmas = call_lemmas or {}   # callee -> (S0, S, result) -> [(label, formula)] proved right after the call
        self.loop_lemmas = loop_lemmas or {}   # ordinal -> (S0, S) -> [(label, formula)] proved at the head of the body
        self.name, self.requires, self.ensures = name, requires, ensures
        self.lemmas = lemmas      # (S0, S, result) -> [(label, formula)]: proved in order at each exit, then usable
        self.invariants = invariants or {}
        self.decreases = decreases or {}
        self.pure = pure


class Exec(object):
    def __init__(self, fn, spec, specs, prop, variant):
        self.fn, self.spec, self.specs, self.prop, self.variant = fn, spec, specs, prop, variant
        self.obls = []
        self.loopno = 0
        self.assumptions = set()

    def oblige(self, st, kind, goal, note=""):
        g = z3.simplify(goal)
        if z3.is_true(g):
            return
        name = "%s/%s[%s]/%s#%s~%d" % (self.prop, self.fn.name, self.variant, kind, st.trail or "-", len(self.obls))
        self.obls.append(Obl(name, list(st.pc), goal, note))
        st.pc.append(goal)

    def int_range(self, st, e, what):
        self.oblige(st, "int-range", z3.And(e >= INT_MIN, e <= INT_MAX), "%s fits int" % what)

    # ------------------------------------------------------------------ driver
    def run(self):
        st = St()
        st.mem = Mem.symbolic()
        st.pc.append(st.mem.nblocks >= 1)
        for (ty, name) in self.fn.params:
            if ty.stars == 0:
                v = fresh(name)
                st.env[name] = CInt(v, ty.base)
                if ty.base == "int":
                    st.pc.append(z3.And(v >= INT_MIN, v <= INT_MAX))
                else:
                    st.pc.append(z3.And(v >= 0, v <= SIZE_MAX))
            elif is_struct_type(ty.base) and ty.stars == 1:
                blk = fresh(name + "_blk")
                st.pc.append(z3.And(blk >= 0, blk < st.mem.nblocks))
                st.env[name] = CPtr(blk, 0, "struct")
            else:
                blk, off = fresh(name + "_blk"), fresh(name + "_off")
                st.pc.append(z3.And(blk >= 0, blk < st.mem.nblocks))
                st.env[name] = CPtr(blk, off, "ptr" if ty.stars == 2 else ("void" if ty.base == "void" else "char"))
        st0 = st.fork()
        for r in self.spec.requires(st):
            st.pc.append(r)
        self.entry = st.fork()
        outs = self.block(self.fn.body.stmts, st)
        self.exits = 0
        for kind, s, val in outs:
            if kind == "break":
                raise CSubsetError("break outside loop")
            self.exits += 1
            if self.spec.lemmas:
                for label, g in self.spec.lemmas(self.entry, s, val):
                    name = "%s/%s[%s]/lemma:%s#%s" % (self.prop, self.fn.name, self.variant, label, s.trail or "-")
                    self.obls.append(Obl(name, list(s.pc), g, label))
                    s.pc.append(g)
            for i, (label, g) in enumerate(self.spec.ensures(self.entry, s, val)):
                s2 = s.fork("E")
                name = "%s/%s[%s]/ensures:%s#%s" % (self.prop, self.fn.name, self.variant, label, s.trail or "-")
                self.obls.append(Obl(name, list(s2.pc), g, label))
        self.reach = [(s.trail, list(s.pc)) for kind, s, val in outs]
        return self.obls

    # ------------------------------------------------------------------ statements
    def block(self, stmts, st):
        cur = [st]
        outs = []
        for stmt in stmts:
            nxt = []
            for s in cur:
                for kind, s2, val in self.stmt(stmt, s):
                    if kind == "normal":
                        nxt.append(s2)
                    else:
                        outs.append((kind, s2, val))
            cur = nxt
        outs += [("normal", s, None) for s in cur]
        return outs

    def stmt(self, n, st):
        k = n.kind
        if k == "block":
            return self.block(n.stmts, st)
        if k == "decl":
            if n.init is not None:
                v = self.convert(self.ev(n.init, st), n.type, st, "initialiser of " + n.name)
            else:
                v = self.fresh_of(n.type, n.name, st)
            st.env[n.name] = v
            return [("normal", st, None)]
        if k == "exprstmt":
            self.ev(n.e, st)
            return [("normal", st, None)]
        if k == "return":
            v = self.ev(n.value, st) if n.value is not None else None
            if v is not None:
                v = self.convert(v, self.fn.rtype, st, "return value")
            return [("return", st, v)]
        if k == "break":
            return [("break", st, None)]
        if k == "if":
            c = self.truth(self.ev(n.cond, st))
            outs = []
            for cond, body, tag in ((c, n.then, "t"), (z3.Not(c), n.els, "f")):
                s2 = st.fork(tag)
                s2.pc.append(cond)
                if not self.feasible(s2):
                    continue
                if body is None:
                    outs.append(("normal", s2, None))
                else:
                    outs += self.stmt(body, s2)
            return outs
        if k == "for":
            return self.loop(n, st)
        raise CSubsetError("statement %s" % k)

    def feasible(self, st):
        s = z3.Solver()
        s.set("timeout", 500)
        s.add(*st.pc)
        return s.check() != z3.unsat

    def fresh_of(self, ty, name, st):
        if ty.stars:
            return CPtr(fresh(name + "_blk"), fresh(name + "_off"), "ptr" if ty.stars == 2 else "char")
        v = fresh(name)
        st.pc.append(z3.And(v >= INT_MIN, v <= INT_MAX) if ty.base == "int" else z3.And(v >= 0, v <= SIZE_MAX))
        return CInt(v, ty.base)

    def assigned(self, n, acc):
        if isinstance(n, list):
            for x in n:
                self.assigned(x, acc)
            return
        if n is None or not hasattr(n, "kind"):
            return
        if n.kind == "assign" and n.lhs.kind == "var":
            acc["vars"].add(n.lhs.name)
        if n.kind == "assign" and n.lhs.kind in ("index", "un", "member"):
            acc["mem"] = True
        if n.kind in ("post", "un") and getattr(n, "op", "") in ("++", "--") and n.e.kind == "var":
            acc["vars"].add(n.e.name)
        if n.kind == "decl":
            acc["decls"].add(n.name)
        if n.kind == "call" and n.f.kind == "var" and n.f.name in ("memcpy", "memset", "strncpy", "malloc", "free"):
            acc["mem"] = True
        for v in n.__dict__.values():
            if isinstance(v, (list,)) or hasattr(v, "kind"):
                self.assigned(v, acc)

    def loop(self, n, st):
        ordn = self.loopno
        self.loopno += 1
        inv = self.spec.invariants.get(ordn)
        if inv is None:
            raise CSubsetError("loop %d of %s needs an invariant" % (ordn, self.fn.name))
        if n.init is not None:
            self.stmt(n.init, st)
        for label, g in inv(self.entry, st):
            self.oblige(st.fork("L%de" % ordn), "inv-entry:" + label, g)
        acc = {"vars": set(), "mem": False, "decls": set()}
        self.assigned([n.body, n.step], acc)
        h = st.fork("L%d" % ordn)
        for v in sorted(acc["vars"]):
            if v in h.env:
                old = h.env[v]
                if isinstance(old, CInt):
                    nv = fresh(v)
                    h.env[v] = CInt(nv, old.ctype)
                    h.pc.append(z3.And(nv >= INT_MIN, nv <= INT_MAX) if old.ctype == "int" else z3.And(nv >= 0, nv <= SIZE_MAX))
                else:
                    h.env[v] = CPtr(fresh(v + "_blk"), fresh(v + "_off"), old.elem)
        if acc["mem"]:
            nb = h.mem.nblocks
            h.mem = Mem.symbolic("loop")
            h.pc.append(h.mem.nblocks >= nb)
        for label, g in inv(self.entry, h):
            h.pc.append(g)
        outs = []
        # body
        b = h.fork("b")
        c = self.truth(self.ev(n.cond, b)) if n.cond is not None else z3.BoolVal(True)
        b.pc.append(c)
        dec = self.spec.decreases.get(ordn)
        d0 = dec(self.entry, b) if dec else None
        for label, g in (self.spec.loop_lemmas.get(ordn) or (lambda a, c_: []))(self.entry, b):
            self.oblige(b, "loop-lemma:" + label, g)
        if self.feasible(b):
            for kind, s2, val in self.stmt(n.body, b):
                if kind == "normal":
                    if n.step is not None:
                        self.ev(n.step, s2)
                    for label, g in inv(self.entry, s2):
                        self.oblige(s2.fork("p"), "inv-preserve:" + label, g)
                    if d0 is not None:
                        d1 = dec(self.entry, s2)
                        self.oblige(s2.fork("d"), "decreases", z3.And(d1 < d0, d0 >= 0))
                elif kind == "break":
                    outs.append(("normal", s2, None))
                else:
                    outs.append((kind, s2, val))
        x = h.fork("x")
        cx = self.truth(self.ev(n.cond, x)) if n.cond is not None else z3.BoolVal(True)
        x.pc.append(z3.Not(cx))
        if self.feasible(x):
            outs.append(("normal", x, None))
        return outs

    # ------------------------------------------------------------------ expressions
    def truth(self, v):
        if isinstance(v, CInt):
            return v.e != 0
        if isinstance(v, CPtr):
            return v.blk != 0
        return v

    def convert(self, v, ty, st, what):
        if ty.stars:
            if isinstance(v, CPtr):
                return CPtr(v.blk, v.off, "ptr" if ty.stars == 2 else ("void" if ty.base == "void" else "char"))
            raise CSubsetError("int to pointer conversion")
        if isinstance(v, CPtr):
            raise CSubsetError("pointer to int conversion")
        if isinstance(v, z3.BoolRef):
            v = CInt(z3.If(v, 1, 0))
        if ty.base == "int" and v.ctype != "int":
            self.int_range(st, v.e, what + " (size_t to int)")
        if ty.base in ("size_t", "unsigned", "unsigned long") and v.ctype == "int":
            self.oblige(st, "nonneg-conversion", v.e >= 0, what + ": int converted to size_t must not be negative")
        return CInt(v.e, "int" if ty.base in ("int", "char") else "size_t")

    def ev(self, n, st):
        k = n.kind
        if k == "num":
            return CInt(n.v)
        if k == "null":
            return CPtr(0, 0, "void")
        if k == "var":
            if n.name not in st.env:
                raise CSubsetError("unknown variable %s" % n.name)
            return st.env[n.name]
        if k == "cast":
            v = self.ev(n.e, st)
            return self.convert(v, n.type, st, "cast")
        if k == "sizeof":
            if n.type.stars:
                self.assumptions.add("sizeof(char *) == 8 (LP64)")
                return CInt(8, "size_t")
            if n.type.base == "char":
                return CInt(1, "size_t")
            raise CSubsetError("sizeof(%s)" % n.type.base)
        if k == "cond":
            c = self.truth(self.ev(n.c, st))
            a, b = self.ev(n.a, st), self.ev(n.b, st)
            if isinstance(a, CInt) and isinstance(b, CInt):
                return CInt(z3.If(c, a.e, b.e), a.ctype if a.ctype == b.ctype else "size_t")
            raise CSubsetError("?: on pointers")
        if k == "member":
            return self.member(n, st)
        if k == "bin":
            return self.binop(n, st)
        if k == "un":
            if n.op == "&":
                if n.e.kind != "member":
                    raise CSubsetError("address-of something other than a struct member")
                v = self.member(n.e, st, address=True)
                return v
            if n.op == "-":
                v = self.ev(n.e, st)
                r = CInt(-v.e, v.ctype)
                self.int_range(st, r.e, "negation")
                return r
            if n.op == "!":
                return CInt(z3.If(self.truth(self.ev(n.e, st)), 0, 1))
            if n.op in ("++", "--"):
                return self.incdec(n.e, n.op, st, prefix=True)
            if n.op == "*":
                return self.load(self.ev(n.e, st), CInt(0), st)
            raise CSubsetError("unary %s" % n.op)
        if k == "post":
            return self.incdec(n.e, n.op, st, prefix=False)
        if k == "index":
            return self.load(self.ev(n.a, st), self.ev(n.i, st), st)
        if k == "assign":
            return self.assign(n, st)
        if k == "call":
            return self.call(n, st)
        raise CSubsetError("expression %s" % k)

    def member(self, n, st, address=False):
        path = [n.name]
        b = n.a
        arrow = n.arrow
        while b.kind == "member":
            path.insert(0, b.name)
            arrow = b.arrow
            b = b.a
        root = self.ev(b, st)
        if not (isinstance(root, CPtr) and root.elem == "struct" and arrow):
            raise CSubsetError("member access on something other than a pointer to a generator struct")
        key = ".".join(path)
        kind = STRUCT_FIELDS.get(key)
        if kind is None:
            raise CSubsetError("struct member %s" % key)
        self.oblige(st, "struct-valid", z3.And(root.blk > 0, z3.Select(st.mem.live, root.blk)), "struct pointer is valid")
        if address:
            if kind != "capsule":
                raise CSubsetError("address of member %s" % key)
            return CPtr(root.blk, 0, "capsule")
        if kind == "cptr":
            return st.fptr(key, root, "char")
        if kind == "vptr":
            return st.fptr(key, root, "void")
        if kind == "size_t":
            v = st.fint(key, root)
            st.pc.append(z3.And(v >= 0, v <= SIZE_MAX))
            return CInt(v, "size_t")
        if kind == "int":
            v = st.fint(key, root)
            st.pc.append(z3.And(v >= INT_MIN, v <= INT_MAX))
            return CInt(v, "int")
        raise CSubsetError("use of member %s as a value" % key)

    def binop(self, n, st):
        op = n.op
        if op in ("&&", "||"):
            a = self.truth(self.ev(n.a, st))
            s2 = st.fork()
            s2.pc.append(a if op == "&&" else z3.Not(a))
            b = self.truth(self.ev(n.b, s2))
            self.obls += []  # obligations of the right operand were recorded under the guard in s2
            return CInt(z3.If((z3.And if op == "&&" else z3.Or)(a, b), 1, 0))
        a, b = self.ev(n.a, st), self.ev(n.b, st)
        if isinstance(a, CPtr) or isinstance(b, CPtr):
            if op in ("==", "!=") and isinstance(a, CPtr) and isinstance(b, CPtr):
                e = z3.And(a.blk == b.blk, z3.Or(a.blk == 0, a.off == b.off))
                return CInt(z3.If(e if op == "==" else z3.Not(e), 1, 0))
            if op in ("+", "-") and isinstance(a, CPtr) and isinstance(b, CInt):
                return CPtr(a.blk, a.off + b.e if op == "+" else a.off - b.e, a.elem)
            raise CSubsetError("pointer arithmetic %s" % op)
        ctype = "int" if a.ctype == "int" and b.ctype == "int" else "size_t"
        if op in ("<", ">", "<=", ">=", "==", "!="):
            if ctype == "size_t":
                # usual arithmetic conversions: an int operand compared with size_t is converted to size_t
                for v in (a, b):
                    if v.ctype == "int":
                        self.oblige(st, "nonneg-conversion", v.e >= 0,
                                    "int compared with size_t is converted to unsigned: must not be negative")
            f = {"<": a.e < b.e, ">": a.e > b.e, "<=": a.e <= b.e, ">=": a.e >= b.e, "==": a.e == b.e, "!=": a.e != b.e}[op]
            return CInt(z3.If(f, 1, 0))
        if op == "+":
            r = a.e + b.e
        elif op == "-":
            r = a.e - b.e
        elif op == "*":
            r = a.e * b.e
        else:
            raise CSubsetError("operator %s" % op)
        if ctype == "int":
            self.int_range(st, r, "%s %s %s" % ("a", op, "b"))
        else:
            for v in (a, b):
                if v.ctype == "int":
                    self.oblige(st, "nonneg-conversion", v.e >= 0, "int operand of size_t arithmetic must not be negative")
            self.oblige(st, "size_t-range", z3.And(r >= 0, r <= SIZE_MAX), "size_t arithmetic does not wrap")
        return CInt(r, ctype)

    def incdec(self, target, op, st, prefix):
        if target.kind != "var":
            raise CSubsetError("++/-- on non-variable")
        v = st.env[target.name]
        d = 1 if op == "++" else -1
        if isinstance(v, CInt):
            nv = CInt(v.e + d, v.ctype)
            if v.ctype == "int":
                self.int_range(st, nv.e, target.name + op)
        else:
            nv = CPtr(v.blk, v.off + d, v.elem)
        st.env[target.name] = nv
        return nv if prefix else v

    def load(self, p, idx, st):
        if not isinstance(p, CPtr) or not isinstance(idx, CInt):
            raise CSubsetError("indexing")
        off = p.off + idx.e
        w = 8 if p.elem == "ptr" else 1
        self.oblige(st, "read-in-bounds", z3.And(p.blk > 0, z3.Select(st.mem.live, p.blk), off >= 0,
                                                 w * off + w <= z3.Select(st.mem.size, p.blk)), "read inside a live block")
        if p.elem == "ptr":
            return CPtr(z3.Select(z3.Select(st.mem.pblk, p.blk), off), z3.Select(z3.Select(st.mem.poff, p.blk), off), "char")
        return CInt(z3.Select(z3.Select(st.mem.bytes, p.blk), off), "int")

    def store(self, p, idx, val, st):
        off = p.off + idx.e
        w = 8 if p.elem == "ptr" else 1
        self.oblige(st, "write-in-bounds", z3.And(p.blk > 0, z3.Select(st.mem.live, p.blk), off >= 0,
                                                  w * off + w <= z3.Select(st.mem.size, p.blk)), "write inside a live block")
        if p.elem == "ptr":
            if not isinstance(val, CPtr):
                raise CSubsetError("storing int into pointer array")
            st.mem.pblk = z3.Store(st.mem.pblk, p.blk, z3.Store(z3.Select(st.mem.pblk, p.blk), off, val.blk))
            st.mem.poff = z3.Store(st.mem.poff, p.blk, z3.Store(z3.Select(st.mem.poff, p.blk), off, val.off))
        else:
            st.mem.bytes = z3.Store(st.mem.bytes, p.blk, z3.Store(z3.Select(st.mem.bytes, p.blk), off, val.e))

    def assign(self, n, st):
        rhs = self.ev(n.rhs, st)
        if n.lhs.kind == "var":
            cur = st.env.get(n.lhs.name)
            if cur is None:
                raise CSubsetError("assignment to unknown variable")
            if n.op != "=":
                if isinstance(cur, CPtr):
                    if n.op == "+=":
                        rhs = CPtr(cur.blk, cur.off + rhs.e, cur.elem)
                    else:
                        raise CSubsetError("pointer %s" % n.op)
                else:
                    e = {"+=": cur.e + rhs.e, "-=": cur.e - rhs.e, "*=": cur.e * rhs.e}[n.op]
                    if cur.ctype == "int":
                        if rhs.ctype != "int":
                            # int op= size_t: computed in size_t, converted back to int
                            self.oblige(st, "nonneg-conversion", cur.e >= 0, "int operand converted to size_t")
                        self.int_range(st, e, "%s %s" % (n.lhs.name, n.op))
                    rhs = CInt(e, cur.ctype)
            elif isinstance(cur, CInt):
                rhs = self.convert(rhs, type("T", (), {"stars": 0, "base": cur.ctype})(), st, "assignment to " + n.lhs.name)
            else:
                rhs = CPtr(rhs.blk, rhs.off, cur.elem if cur.elem != "void" else rhs.elem)
            st.env[n.lhs.name] = rhs
            return rhs
        if n.lhs.kind == "index" and n.op == "=":
            self.store(self.ev(n.lhs.a, st), self.ev(n.lhs.i, st), rhs, st)
            return rhs
        if n.lhs.kind == "un" and n.lhs.op == "*" and n.op == "=":
            self.store(self.ev(n.lhs.e, st), CInt(0), rhs, st)
            return rhs
        raise CSubsetError("assignment target %s" % n.lhs.kind)

    # ------------------------------------------------------------------ calls
    def call(self, n, st):
        if n.f.kind != "var":
            raise CSubsetError("indirect call")
        name = n.f.name
        args = [self.ev(a, st) for a in n.args]
        m = st.mem
        if name in ("memcpy", "strncpy_exact"):
            d, s, cnt = args
            self.oblige(st, "nonneg-conversion", cnt.e >= 0, "memcpy length (int -> size_t) must not be negative")
            self.oblige(st, "memcpy-dest", z3.Or(cnt.e == 0, st.valid(d, cnt.e)), "memcpy destination range is inside a live block")
            self.oblige(st, "memcpy-src", z3.Or(cnt.e == 0, st.valid(s, cnt.e)), "memcpy source range is inside a live block")
            self.oblige(st, "memcpy-nonnull", z3.And(d.blk != 0, s.blk != 0), "memcpy pointers must not be NULL even for n == 0")
            self.oblige(st, "memcpy-disjoint", z3.Or(cnt.e == 0, d.blk != s.blk), "memcpy ranges must not overlap")
            i = z3.Int("mi!%d" % id(n))
            old = z3.Select(m.bytes, d.blk)
            src = z3.Select(m.bytes, s.blk)
            new = z3.Lambda([i], z3.If(z3.And(i >= d.off, i < d.off + cnt.e), z3.Select(src, s.off + i - d.off), z3.Select(old, i)))
            m.bytes = z3.Store(m.bytes, d.blk, new)
            return d
        if name == "strncpy":
            d, s_, cnt = args
            self.oblige(st, "nonneg-conversion", cnt.e >= 0, "strncpy length must not be negative")
            self.oblige(st, "strncpy-dest", z3.Or(cnt.e == 0, st.valid(d, cnt.e)), "strncpy writes exactly n bytes: destination range inside a live block")
            # reads at most n bytes (stops after a NUL): a readable range of n bytes is sufficient
            self.oblige(st, "strncpy-src", z3.Or(cnt.e == 0, st.valid(s_, cnt.e)), "strncpy source: n readable bytes")
            self.oblige(st, "strncpy-disjoint", z3.Or(cnt.e == 0, d.blk != s_.blk), "strncpy ranges must not overlap")
            self.oblige(st, "strncpy-nonnull", z3.And(d.blk != 0, s_.blk != 0), "strncpy pointers must not be NULL even for n == 0 (C11 7.24.1p2; UBSan nonnull-attribute)")
            i = z3.Int("mi!%d" % id(n))
            old = z3.Select(m.bytes, d.blk)
            new_bytes = fresh("strncpy_result", AII)
            new = z3.Lambda([i], z3.If(z3.And(i >= d.off, i < d.off + cnt.e), z3.Select(new_bytes, i), z3.Select(old, i)))
            m.bytes = z3.If(cnt.e == 0, m.bytes, z3.Store(m.bytes, d.blk, new))
            return d
        if name.endswith("SHROUD_memory_destructor"):
            c = args[0]
            if not (isinstance(c, CPtr) and c.elem == "capsule"):
                raise CSubsetError("memory destructor called with something other than &ctx->cxx")
            # contract of the generated destructor (Wrapc.write_capsule_code): releases what the capsule owns; calling it
            # on an already released capsule is harmless there, but here every path must release exactly once
            st.released = z3.Store(st.released, c.blk, z3.Select(st.released, c.blk) + 1)
            return None
        if name == "memset":
            d, c, cnt = args
            self.oblige(st, "nonneg-conversion", cnt.e >= 0, "memset length (int -> size_t) must not be negative")
            self.oblige(st, "memset-dest", st.valid(d, cnt.e), "memset range is inside a live block")
            i = z3.Int("mi!%d" % id(n))
            old = z3.Select(m.bytes, d.blk)
            new = z3.Lambda([i], z3.If(z3.And(i >= d.off, i < d.off + cnt.e), c.e, z3.Select(old, i)))
            m.bytes = z3.Store(m.bytes, d.blk, new)
            return d
        if name == "strlen":
            s = args[0]
            L = fresh("strlen")
            self.oblige(st, "strlen-cstring", z3.And(s.blk > 0, z3.Select(m.live, s.blk), s.off >= 0,
                                                     CSTR(m.bytes, m.size, s.blk, s.off)), "strlen needs a NUL-terminated string")
            j = z3.Int("sj!%d" % id(n))
            st.pc.append(z3.And(L >= 0, s.off + L < z3.Select(m.size, s.blk), st.byte(s, L) == 0,
                                z3.ForAll([j], z3.Implies(z3.And(j >= 0, j < L), st.byte(s, j) != 0))))
            return CInt(L, "size_t")
        if name == "malloc":
            cnt = args[0]
            self.oblige(st, "nonneg-conversion", cnt.e >= 0, "malloc size (int -> size_t) must not be negative")
            self.assumptions.add("malloc succeeds (no NULL result)")
            blk = m.nblocks
            st.pc.append(z3.Not(z3.Select(m.live, blk)))
            st.pc.append(MALLOCED(blk))
            m.nblocks = m.nblocks + 1
            m.size = z3.Store(m.size, blk, cnt.e)
            m.live = z3.Store(m.live, blk, True)
            m.malloced = getattr(m, "malloced", [])
            return CPtr(blk, 0, "void")
        if name == "free":
            p = args[0]
            self.oblige(st, "free-valid", z3.Or(p.blk == 0, z3.And(p.off == 0, z3.Select(m.live, p.blk), MALLOCED(p.blk))),
                        "free() of a pointer that is NULL or the start of a live malloc block (exactly once)")
            m.live = z3.If(p.blk == 0, m.live, z3.Store(m.live, p.blk, False))
            return None
        if name in self.specs:
            sp, fn = self.specs[name]
            cs = St()
            cs.mem = m
            cs.pc = st.pc
            for (ty, pn), a in zip(fn.params, args):
                cs.env[pn] = self.convert(a, ty, st, "argument %s of %s" % (pn, name))
            for r in sp.requires(cs):
                self.oblige(st, "call-requires:" + name, r, "precondition of %s" % name)
            if not sp.pure:
                raise CSubsetError("call of a helper that writes memory")
            res = CInt(fresh(name + "_result"), "int") if fn.rtype.stars == 0 else CPtr(fresh("rb"), fresh("ro"))
            for label, g in sp.ensures(cs, cs, res):
                st.pc.append(g)
            if name in self.spec.call_lemmas:
                for label, g in self.spec.call_lemmas[name](self.entry, st, res):
                    if label.startswith("define:"):
                        # instance of the defining axiom of a (total) specification function: assumed, listed
                        st.pc.append(g)
                        self.assumptions.add("definitional axiom instantiated: " + label[7:])
                    else:
                        self.oblige(st, "lemma:" + label, g, label)
            return res
        raise CSubsetError("call of %s" % name)


CSTR = z3.Function("c_is_cstring", z3.ArraySort(I, AII), z3.ArraySort(I, I), I, I, B)
MALLOCED = z3.Function("c_malloced", I, B)
