"""Self-validation of the util.Scope units (contracts/util_scope.py): each textual edit of a scratch copy of
shroud/util.py breaks the stated view of Scope and must be REFUTED (or, where the edit leaves the subset, UNDECIDED -- never OK);
the semantics-preserving edits must stay OK.   usage: python3-vt selftest/mutants_scope.py"""
import sys
import os
sys.path.insert(0, os.path.dirname(os.path.dirname(os.path.abspath(__file__))))
from selftest.mutate import Mutant, run_mutant
from contracts import util_scope

U = "shroud/util.py"
A = "shroud/ast.py"
M = [
    Mutant("S1", "C14", U, "            elif not hasattr(self, key):", "            elif hasattr(self, key):", "refuted", "replace=False inverted"),
    Mutant("S2", "C14", U, "            elif not hasattr(self, key):", "            elif key not in self.__dict__:", "refuted",
           "replace=False shadows a key the parent chain defines"),
    Mutant("S3", "C14", U, "            return getattr(self.__parent, name)", "            return getattr(self.__parent, name.lower())", "refuted",
           "parent asked for another name"),
    Mutant("S4", "C14", U, "        if key not in self.__dict__:\n            self.__dict__[key] = value",
           "        if key not in self:\n            self.__dict__[key] = value", "refuted", "setdefault looks at the chain"),
    Mutant("S5", "C14", U, "        new = Scope(self.__parent)", "        new = Scope(None)", "refuted", "clone loses the parent"),
    Mutant("S6", "C14", U, "            if not key.startswith(skip):\n                new.__dict__[key] = value",
           "            if key.startswith(skip):\n                new.__dict__[key] = value", "refuted", "clone copies the wrong keys"),
    Mutant("S7", "C14", U, "            if key in self.__dict__:\n                del self.__dict__[key]",
           "            if key in self:\n                del self.__dict__[key]", "refuted", "delattrs: KeyError for an inherited key"),
    Mutant("S8", "C14", U, "        return key in self.__dict__", "        return key in self", "refuted", "inlocal looks at the chain"),
    Mutant("S9", "C14", U, "        except AttributeError:\n            return value", "        except AttributeError:\n            return None", "refuted",
           "get drops the default"),
    Mutant("S10", "C14", U, "        self.update(kw)", "        self.update(kw, replace=False)", "refuted",
           "constructor keywords do not shadow the parent"),
    Mutant("S11", "C14", U, "        new = Scope(self.__parent)\n", "        new = Scope(self.__parent)\n        new.__dict__ = self.__dict__\n", "notok",
           "clone shares the dictionary"),
    Mutant("S12", "C14", U, "            if replace:\n                setattr(self, key, value)", "            if replace and not self.inlocal(key):\n                setattr(self, key, value)",
           "notok", "replace=True does not overwrite a local value"),
    Mutant("S13", "C14", U, "        return hasattr(self, item)", "        return item in self.__dict__", "refuted", "__contains__ ignores the parent"),
    Mutant("S14", "C14", U, "        self.__parent = parent\n\n    def get_parent", "        self.__parent = parent\n        self.__hidden = 0\n\n    def get_parent", "refuted",
           "reparent touches another field"),
    Mutant("T1", "C14", A, "        if not fmt.inlocal(name):\n            tname", "        if name not in fmt:\n            tname", "refuted",
           "eval_template: an inherited value blocks the template"),
    Mutant("T2", "C14", A, "util.wformat(self.options[tname], fmt))", "util.wformat(self.options[tname], self.fmtdict))", "refuted",
           "eval_template formats with the node's scope instead of the given one"),
    Mutant("T3", "C14", A, "        if not fmt.inlocal(name):\n            setattr(fmt, name, value)",
           "        if not fmt.inlocal(name):\n            setattr(self.fmtdict, name, value)", "refuted", "set_fmt_default writes the node's scope instead of the given one"),
    Mutant("T4", "C14", A, "        if not fmt.inlocal(name):\n            tname", "        if True:\n            tname", "refuted",
           "eval_template overwrites an explicitly set field"),
    Mutant("T5", "C14", A, "setattr(fmt, name, util.wformat(self.options[tname], fmt))", "setattr(fmt, name, util.wformat(self.options[name], fmt))", "refuted",
           "eval_template reads another option"),
    Mutant("P1", "C14", U, "        for key in lst:\n            if key in self.__dict__:", "        for k2 in lst:\n            key = k2\n            if key in self.__dict__:", "ok",
           "renamed loop variable"),
    Mutant("P2", "C14", U, "        return self.__dict__.get(key, value)", "        return self.__dict__[key]", "ok", "setdefault result read directly"),
]

if __name__ == "__main__":
    bad = 0
    for m in M:
        res = run_mutant(m, util_scope.UNITS)
        st = sorted(set(r.status for r in res))
        refuted = [r.unit.name for r in res if r.status == "refuted"]
        undec = [r.unit.name for r in res if r.status not in ("ok", "refuted")]
        if m.expect == "ok":
            good = st == ["ok"]
        elif m.expect == "refuted":
            good = bool(refuted)
        else:
            good = bool(refuted or undec)
        bad += 0 if good else 1
        print("%-4s %-7s expect=%-7s refuted=%s undecided=%s  (%s)" % (m.mid, "good" if good else "MISSED", m.expect, refuted, undec, m.why))
    print("mutants: %d, wrong verdicts: %d" % (len(M), bad))
    sys.exit(1 if bad else 0)
