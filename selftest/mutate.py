"""Seeded breaking changes: apply a textual edit to a scratch copy of /repo/shroud (outside /repo and /verif),
run the units against it, remove the copy.  Used by the thorough tier and during development."""
import os
import shutil
import sys
import tempfile

sys.path.insert(0, os.path.dirname(os.path.dirname(os.path.abspath(__file__))))


class Mutant(object):
    def __init__(self, mid, prop, path, old, new, expect, why="", count=1):
        self.mid, self.prop, self.path, self.old, self.new = mid, prop, path, old, new
        self.expect = expect      # "refuted" | "ok" (semantics-preserving edit)
        self.why = why
        self.count = count


def scratch_copy(repo="/repo"):
    d = tempfile.mkdtemp(prefix="shroud_mut_")
    shutil.copytree(os.path.join(repo, "shroud"), os.path.join(d, "shroud"))
    return d


def apply(m, root):
    p = os.path.join(root, m.path)
    s = open(p).read()
    if s.count(m.old) != m.count:
        raise RuntimeError("mutant %s: pattern occurs %d times, expected %d" % (m.mid, s.count(m.old), m.count))
    open(p, "w").write(s.replace(m.old, m.new))


def run_mutant(m, units, repo="/repo"):
    from pyvc.runner import run_units
    d = scratch_copy(repo)
    try:
        apply(m, d)
        return run_units(units, repo=d)
    finally:
        shutil.rmtree(d, ignore_errors=True)
