"""developer helper: python3-vt selftest/run_units.py contracts.fc_args [unit name ...]"""
import sys, importlib, os
sys.path.insert(0, os.path.dirname(os.path.dirname(os.path.abspath(__file__))))
from pyvc.runner import run_units, print_results
mod = importlib.import_module(sys.argv[1])
names = sys.argv[2:]
allu = list(mod.UNITS)
for extra in ("LIST_UNITS", "EXPR_UNITS", "NEXT_UNITS"):
    for u in getattr(mod, extra, []):
        if u not in allu:
            allu.append(u)
units = [u for u in allu if not names or u.name in names]
print_results(run_units(units, repo=os.environ.get("VERIF_REPO")))
