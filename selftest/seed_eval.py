"""Confirm a seeded breaking change and run the registered check against it.
usage: seed_eval.py <seed_dir> <prop> <seed_id> [needs text]
 1. scratch worktree of /repo: tests pass with the patch; demo fails with it and passes without it
 2. apply to /repo, run ./check <prop>, restore /repo (git checkout -- .)
 3. write /verif/seeded/<seed_id>/{patch.diff,demo.py,notes.txt,meta.json}"""
import json
import os
import shutil
import subprocess
import sys
import tempfile

src, prop, sid = sys.argv[1], sys.argv[2], sys.argv[3]
needs = sys.argv[4] if len(sys.argv) > 4 else ""
TEST = "/venv/bin/python -m pytest -q -p no:cacheprovider --timeout=900 --continue-on-collection-errors 2>&1 | tail -1"


def sh(cmd, cwd=None, env=None):
    e = dict(os.environ)
    e.update(env or {})
    p = subprocess.run(cmd, shell=True, cwd=cwd, env=e, capture_output=True, text=True)
    return p.returncode, (p.stdout + p.stderr)


wt = tempfile.mkdtemp(prefix="seedwt_")
os.rmdir(wt)
meta = {"property": prop, "seed": sid, "needs_to_manifest": needs, "ran": []}
try:
    sh("git -C /repo worktree add --detach %s HEAD -q" % wt)
    patch = os.path.abspath(os.path.join(src, "patch.diff"))
    demo = os.path.abspath(os.path.join(src, "demo.py"))
    rc0, out0 = sh("/venv/bin/python %s" % demo, cwd=wt, env={"PYTHONPATH": wt})
    rc, out = sh("git apply %s" % patch, cwd=wt)
    if rc != 0:
        # /repo moved on (fix: commits): re-apply with fuzz and re-base the stored patch on the current tree
        rc, out = sh("patch -p1 -F3 --no-backup-if-mismatch < %s" % patch, cwd=wt)
        assert rc == 0, out
        rc, newdiff = sh("git diff", cwd=wt)
        rebased = os.path.join(tempfile.gettempdir(), "rebased_%s.diff" % sid)
        open(rebased, "w").write(newdiff)
        patch = rebased
        meta["patch_rebased_on_current_tree"] = True
    rct, outt = sh(TEST, cwd=wt, env={"PYTHONPATH": wt})
    rc1, out1 = sh("/venv/bin/python %s" % demo, cwd=wt, env={"PYTHONPATH": wt})
    meta["demo_exit_without_change"] = rc0
    meta["demo_exit_with_change"] = rc1
    meta["tests_with_change"] = outt.strip()
    meta["demo_output_with_change"] = out1[-600:]
    meta["confirmed"] = (rc0 == 0 and rc1 != 0 and "91 passed" in outt)
    meta["ran"] += ["demo.py on unmodified scratch worktree", "git apply patch.diff; pinned pytest command; demo.py"]
finally:
    sh("git -C /repo worktree remove --force %s" % wt)
    shutil.rmtree(wt, ignore_errors=True)
# run the check on /repo with the patch applied
st, _ = sh("git -C /repo status --porcelain --untracked-files=no")
rc, out = sh("git -C /repo apply %s" % patch)
assert rc == 0, out
evf = "/verif/evidence/%s.json" % prop
saved_ev = open(evf).read() if os.path.exists(evf) else None
try:
    rcc, outc = sh("./check %s --tier quick" % prop, cwd="/verif")
finally:
    sh("git -C /repo checkout -- .")
    # the evidence file committed under /verif must come from a run on the unchanged tree
    if saved_ev is not None:
        open(evf, "w").write(saved_ev)
meta["check_exit"] = rcc
meta["check_violation_lines"] = [l for l in outc.split("\n") if l.startswith("VIOLATION") or l.startswith("UNDECIDED") or l.startswith("CHECKER")][:6]
meta["check_detail"] = [l for l in outc.split("\n") if l.startswith("  ")][:8]
meta["detected"] = rcc == 1
meta["ran"].append("git -C /repo apply patch.diff; ./check %s --tier quick; git -C /repo checkout -- ." % prop)
dst = os.path.join("/verif/seeded", sid)
os.makedirs(dst, exist_ok=True)
for f in ("demo.py", "notes.txt"):
    if os.path.exists(os.path.join(src, f)) and os.path.abspath(src) != os.path.abspath(dst):
        shutil.copy(os.path.join(src, f), os.path.join(dst, f))
if os.path.abspath(patch) != os.path.abspath(os.path.join(dst, "patch.diff")):
    shutil.copy(patch, os.path.join(dst, "patch.diff"))
json.dump(meta, open(os.path.join(dst, "meta.json"), "w"), indent=1)
print(json.dumps(meta, indent=1))
