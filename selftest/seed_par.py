"""Regression of all seeded changes, one stream per property, each in its own scratch worktree of /repo (the checks read
the tree under VERIF_REPO).  Re-applies every seeded/<id>/patch.diff and requires the property's quick check to exit 1.
(The confirmation of a seed -- tests green, demonstration fails -- is done once by seed_eval.py when it is recorded; this
script only re-runs the checks.)  Writes seeded/SUMMARY.json.
usage: seed_par.py [streams=4] [Cnn ...]"""
import json
import os
import subprocess
import sys
import tempfile
from concurrent.futures import ThreadPoolExecutor

HERE = os.path.dirname(os.path.dirname(os.path.abspath(__file__)))
args = sys.argv[1:]
streams = int(args[0]) if args and args[0].isdigit() else 4
only = [a for a in args if not a.isdigit()]
seeds = {}
for sid in sorted(os.listdir(os.path.join(HERE, "seeded"))):
    if os.path.isdir(os.path.join(HERE, "seeded", sid)):
        seeds.setdefault(sid.split("-")[0], []).append(sid)


def sh(cmd, cwd=None, env=None):
    e = dict(os.environ)
    e.update(env or {})
    p = subprocess.run(cmd, shell=True, cwd=cwd, env=e, capture_output=True, text=True)
    return p.returncode, p.stdout + p.stderr


def stream(prop):
    out = {}
    wt = tempfile.mkdtemp(prefix="seedpar_%s_" % prop)
    os.rmdir(wt)
    evf = os.path.join(HERE, "evidence", "%s.json" % prop)
    saved = open(evf).read() if os.path.exists(evf) else None
    try:
        sh("git -C /repo worktree add --detach %s HEAD -q" % wt)
        for sid in seeds[prop]:
            patch = os.path.join(HERE, "seeded", sid, "patch.diff")
            rc, o = sh("git apply %s" % patch, cwd=wt)
            if rc != 0:
                out[sid] = {"error": "patch does not apply: " + o[-200:]}
                continue
            rcc, oc = sh("./check %s --tier quick" % prop, cwd=HERE, env={"VERIF_REPO": wt})
            sh("git checkout -- .", cwd=wt)
            out[sid] = {"check_exit": rcc, "detected": rcc == 1,
                        "by": [l.split("replay=")[-1].split("/")[-1] for l in oc.split("\n") if l.startswith("VIOLATION")][:3]}
            print(sid, out[sid], flush=True)
    finally:
        sh("git -C /repo worktree remove --force %s" % wt)
        if saved is not None:
            open(evf, "w").write(saved)
    return out


props = [p for p in sorted(seeds) if not only or p in only]
res = {}
with ThreadPoolExecutor(max_workers=streams) as ex:
    for r in ex.map(stream, props):
        res.update(r)
json.dump(res, open(os.path.join(HERE, "seeded", "SUMMARY.json"), "w"), indent=1, sort_keys=True)
bad = sorted(k for k, v in res.items() if not v.get("detected"))
print("seeds:", len(res), "not detected:", bad)
