"""Regression of the seeded changes: every seeded/<id> is confirmed again on the current tree and must be detected by
the check of its property.  Writes seeded/SUMMARY.json.  (Applies each patch to /repo and undoes it: nothing else may
use /repo while this runs.)"""
import json
import os
import subprocess
import sys

HERE = os.path.dirname(os.path.dirname(os.path.abspath(__file__)))
only = sys.argv[1:]
out = {}
for sid in sorted(os.listdir(os.path.join(HERE, "seeded"))):
    d = os.path.join(HERE, "seeded", sid)
    if not os.path.isdir(d) or (only and sid not in only):
        continue
    prop = sid.split("-")[0]
    p = subprocess.run([sys.executable, os.path.join(HERE, "selftest", "seed_eval.py"), d, prop, sid], capture_output=True, text=True)
    try:
        meta = json.load(open(os.path.join(d, "meta.json")))
        out[sid] = {"confirmed": meta.get("confirmed"), "detected": meta.get("detected"), "check_exit": meta.get("check_exit"),
                    "by": [v.split("replay=")[-1].split("/")[-1] for v in meta.get("check_violation_lines", []) if v.startswith("VIOLATION")][:3]}
    except Exception as e:
        out[sid] = {"error": str(e), "stderr": p.stderr[-400:]}
    print(sid, out[sid], flush=True)
    st = subprocess.run(["git", "-C", "/repo", "status", "--porcelain", "--untracked-files=no"], capture_output=True, text=True).stdout
    if st.strip():
        print("!! /repo not clean after", sid, st)
        subprocess.run(["git", "-C", "/repo", "checkout", "--", "."])
json.dump(out, open(os.path.join(HERE, "seeded", "SUMMARY.json"), "w"), indent=1, sort_keys=True)
bad = [k for k, v in out.items() if not (v.get("confirmed") and v.get("detected"))]
print("not confirmed or not detected:", bad)
