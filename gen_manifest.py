"""Regenerates MANIFEST.json from the table below (kept in one place so it stays valid)."""
import json
import os

HERE = os.path.dirname(os.path.abspath(__file__))

NA = {
    "C01": "needs an operational semantics of emitted Fortran/C++ text; no contract over the generator's Python values can express call equivalence (DESIGN.md 6/C01)",
    "C02": "needs semantics of emitted C++ text (DESIGN.md 6/C02)",
    "C03": "needs CPython C-API semantics applied to emitted text (DESIGN.md 6/C03)",
    "C18": "needs Lua C-API stack semantics applied to emitted text (DESIGN.md 6/C18)",
}
PENDING = "check not built yet (planned, DESIGN.md section 6)"

CHECKS = {
    "C09": dict(
        category="proof",
        text="Deductive: ExprParser.argument_list and Parser.parameter_list over a token-stream model close on ')' with no "
             "comma directly before it, terminate, raise only RuntimeError/NotImplementedError; the '(void)' rule of "
             "Parser.declaration (the parameter list is emptied exactly for a single unnamed, declarator-less void); the "
             "expression printer methods produce token-safe text (oracle W1-W3). Effect judgement over the real source "
             "(interprocedural alias/effect inference): no renderer or query of declast.Declaration/Declarator/Ptr and no "
             "PrintNode visitor mutates the node it renders. Bounded (labelled): g++ static_assert(std::is_same) between "
             "~320 declarations and both shroud's re-rendering and the type it recorded (typemap rendering); scoped names "
             "(::X, X, inner::X inside namespaces/classes) resolve as g++ resolves them; every parenthesisation of <= 4 operands keeps its structure "
             "through print and re-parse; parse(gen_decl(parse(d))) == parse(d) over a declarator grammar; renderers leave "
             "the node unchanged. One genuine defect found and fixed. Further units: ExprParser.expression / primary / identifier (precedence climbing against the operator table read from the source, own-contract recursion), Declaration.gen_attrs (a set attribute is rendered whatever its value).",
        design_ref="6/C09, 12",
        note="Agreement with a C++ compiler only through the bounded monitor. Sub-parsers are used through trusted "
             "contracts; ExprParser.expression precedence, declaration_specifier/declarator/pointer and the gen_decl family "
             "have no contract of their own.",
        technique="contract-based deductive verification (AST-generated VCs over a token-stream model) + effect inference + bounded g++ oracle / round trip",
    ),
    "C08": dict(
        category="proof",
        text="Leaf mechanism proved, global claim bounded. Deductive: util.un_camel (loop invariant over folds) -- no upper-case "
             "character in the result, the result equals the lower-cased name up to inserted underscores (nothing lost, "
             "duplicated or reordered, so names that differ modulo case/underscore stay different), length bounds, names "
             "without capitals unchanged; for all ASCII identifiers. The uniqueness of generated names over overloads x "
             "default arguments x explicit/defaulted suffixes is checked by a bounded run of the real generate_functions "
             "(labelled bounded, not proof) and by a file-level bounded check of the generated C and Fortran files of six "
             "libraries (no wrapper defined twice, no Fortran entity declared twice, compilers accept); they exposed one "
             "genuine defect (fixed) and two recorded known findings. Also under contract: the numbering step of define_function_suffix (position in the overload set -> suffix). File-level monitor also reads Python method tables and Lua registries. Bounded relations on every upstream regression input (m_corpus_rel) run in both tiers. Frame items on the expansion pass, decided by evaluation over the real AST (C08/E1-E3): the per-declaration lists of the input are read-only (found the fixed defect 61a125e), the overload grouping ignores the wrapper selection, a default-argument variant keeps the generic name.",
        design_ref="6/C08, A.3",
        note="Not covered deductively: define_function_suffix / has_default_args / template and generic expansion (clone "
             "FunctionNodes, mutate Scopes), name templates, dump_generic_interfaces, Python/Lua method tables.",
        technique="contract-based deductive verification (AST-generated VCs) of un_camel + bounded stand-in for name uniqueness",
    ),
    "C15": dict(
        category="proof",
        text="Deductive (ghost 'listed == written' contract, SMT): Wrapc.write_header lists a file iff it writes it, under the "
             "same name, in the C/Fortran directory, and returns that fact. Obligations decided on the AST of every writer: "
             "each write_output_file call targets the directory designated for its kind; every C/Fortran file written is "
             "listed under the same condition with join(directory, name); Python/Lua emitters never touch the lists; "
             "main_with_args runs each emitter's wrap_library only under its wrap.<lang> flag, in the order C, Fortran, "
             "Python, Lua, and writes --cfiles/--ffiles from the lists; the output directories are the option for their kind "
             "else --outdir; WrapFlags.accumulate/assign and PromoteWrap (a container's flag is the OR over all its members, "
             "every member container visited); a default-argument variant keeps its function's wrap_c/wrap_fortran; every "
             "loop over classes/namespaces in an emitter handles an element only under that element's own flag for the "
             "emitter's language; every read of a Python/Lua wrap flag outside the Python/Lua emitters is flag bookkeeping, "
             "the emitter gate, or the one documented struct-constructor site (non-interference table); the file lists are "
             "per-run objects. Three genuine defects found and fixed. process_return_this keeps the Python and Lua choice of the method (unit); bounded monitor m_wrapsel now in the quick tier (every switched-on declaration present, namespace / struct / class switch-off, return_this). Bounded relations on every upstream regression input (m_corpus_rel) run in both tiers.",
        design_ref="6/C15",
        note="Not covered: byte-identity of C/Fortran files under wrap_python struct-constructor addition; per-function "
             "flags inside wrap_function bodies. Bounded monitors m_wrapsel, m_purity.",
        technique="contract-based deductive verification (ghost sets, SMT) + structural obligations over the real AST",
    ),
    "C16": dict(
        category="proof",
        text="Non-interference by a comment-only effect judgement over the real AST: every read of debug, debug_index, "
             "doxygen, literalinclude, show_splicer_comments and of config.write_version (60 sites) is the test of an `if` "
             "or initialises a local flag, and everything such a test controls only appends comment lines or blank lines, "
             "calls comment-only procedures, fills lists that only ever receive comment lines, or assigns locals used only "
             "there; a break/continue under such a test is accepted only when the whole loop is documentation-only; "
             "user-supplied doxygen texts reach the output one prefixed line at a time. One genuine defect found "
             "and fixed. _create_splicer's independence of show_splicer_comments is proved under C12. Comment text must be free of line-break hints (a literal tab / form feed or a rendering asked for them with continuation=True, also through locals). Bounded monitor m_docopts in both tiers (per-declaration options, long callbacks, libraries without functions). Bounded relations on every upstream regression input (m_corpus_rel) run in both tiers.",
        design_ref="6/C16",
        note="Syntactic judgement; assumes comment stripping of the target languages removes exactly what it calls a comment "
             "line. Library-level literalinclude/literalinclude2 excluded by the property. Whole-run relation only monitored.",
        technique="contract-based verification of comment-only (non-interference) contracts by effect judgement over the real code",
    ),
    "C07": dict(
        category="proof",
        text="Frame and purity contracts of main.main_with_args, decided by a function-by-function effect inference over the "
             "real AST (effects/roots.py): for every module-level and class-level mutable root (45 at present) one of: no "
             "mutation site reachable from main_with_args; rebound to a fresh value on every run before use; only "
             "unconditional keyed writes that never read prior content and whose keys are never enumerated; a temporary "
             "rebinding restored in a finally clause. Plus: no reachable read of time/environment/host/random/pid/"
             "directory listings, no id()/hash() flowing to output, no set iteration. Ten roots failed on the original tree; "
             "four genuine defects were repaired. A reset that exists but is reached only conditionally or after use is a "
             "failure; implicit reads of the working directory (abspath, relpath without start, ...) count as impure. Thorough "
             "tier: bounded run-time frame check (in-process sequences of libraries vs fresh processes). Also judged: a write decided by a value read from the same root (memo pattern) is not an oblivious write; a set handed to list/tuple/join/extend; every path main_with_args probes or reads is a command-line value or os.path.join(directory, name). Bounded replay m_purity: in-process run sequences, working-directory and PYTHONHASHSEED independence. Bounded relations on every upstream regression input (m_corpus_rel) run in both tiers.",
        design_ref="6/C07, Appendix C",
        note="Sound under the aliasing assumptions of DESIGN.md section 8 (name-based alias closure; reflective writes only "
             "at visible setattr sites). J3 roots carry the listed assumption about stale keys; debug dumps excluded. "
             "Hash-seed independence follows from the absence of set iteration plus CPython dict ordering.",
        technique="contract-based verification of frame/purity (modifies) contracts by effect inference over the real code",
    ),
    "C14": dict(
        category="proof",
        text="Partial, mechanisms only. Deductive: the --option merge of main.main_with_args (slice): every name=value is split "
             "at the first '=', typed as the YAML file would type it (true/false -> bool, digits -> int, else text), a missing "
             "'=' stops with SystemExit. Call-site obligations computed from the AST: every attribute of `args` that "
             "main_with_args reads is set by create_wrapper and defined by the argument parser, with the same defaults. "
             "FunctionNode.__init__ merges fattrs before the name is taken; every node's options/fmtdict parent is its syntactic "
             "parent's; clone_scope_chain and the loop body of ClassNode.clone keep every enclosing scope (blocks) of a "
             "function when a class template is instantiated (scope-chain signature, own-contract recursion); every "
             "module-/class-level mutable root is reset or untouched per run, so create_wrapper after earlier runs equals a "
             "fresh command line (effect judgement). Four genuine defects found and fixed. Whole-run identity is monitored "
             "(bounded, both tiers: two-run relations m_equiv; m_options in the thorough tier). Further units: per-argument attrs merge (keyed by the argument's own name), create_wrapper passes its parameters through unchanged; m_equiv also relates a customisation on every instantiation to the same one on the class template, attrs vs inline attributes with fortran_generic, constructors inside blocks. Six genuine defects found and fixed in all. Bounded relations on every upstream regression input (m_corpus_rel) run in both tiers. "
             "util.Scope itself (the scoped dictionary of the first anchor): every method -- __init__, __getattr__, __getitem__, "
             "__contains__, get, setdefault, update (both replace modes, loop invariant over a complete enumeration of the "
             "argument's keys), inlocal, delattrs, clone, reparent, get_parent -- is a unit proved against the view 'chain of "
             "dictionaries, the first one that has the key answers': writes go to the local dictionary only (parent and siblings "
             "are outside every modifies clause, frame obligation), replace=False never shadows a key the chain defines, a clone "
             "is a new dictionary with the same public content and the same parent.",
        design_ref="6/C14",
        note="Assumed: Python's attribute protocol for a Scope instance (getattr: instance dictionary then __getattr__; setattr: "
             "instance dictionary; hasattr), keys are not names of Scope's own class attributes, FunctionNode.clone. Not covered: "
             "ClassNode.clone outside the loop body, identity of whole runs (bounded "
             "monitors m_equiv, m_options, m_purity, m_scope).",
        technique="contract-based deductive verification (AST-generated VCs) + AST call-site obligations + effect judgement (history independence) + bounded two-run relations",
    ),
    "C11": dict(
        category="proof",
        text="Deductive: the enum value loop of ast.EnumNode.__init__ (slice, members as a symbolic list) against the C++ "
             "rule v(i) = explicit value else v(i-1)+1: every member's Fortran value and every explicit member's C value "
             "evaluate to v(i), for int and expression modes, all member counts; plus the expression printer "
             "(todict.PrintNode.visit_BinaryOp / visit_UnaryOp / visit_ParenExpr) against a token-safety oracle (no operand "
             "starting with a sign directly after an operator); the emission loops Wrapc.wrap_enum (an initialiser may be left "
             "out only where the source has none) and Wrapf.wrap_enum (one parameter per member with its own value); "
             "PrintNodeIdentifier.visit_Constant (octal literal -> decimal for Fortran). Bounded (labelled): g++ evaluates the "
             "original enumeration and the generated header, gfortran the module. Three genuine defects found and fixed. Printer state: no module- or class-level mutable root of todict survives between calls (effect judgement).",
        design_ref="6/C11, A.6",
        note="Relative to the oracles A1/A1o/A2/A3 (decimal vs octal literals, '+k' suffix, identifier renaming) written from "
             "the standards; ExprParser.expression precedence only through the bounded compiler oracle; wrapp/Lua constants "
             "not covered.",
        technique="contract-based deductive verification (AST-generated VCs, z3+cvc5)",
    ),
    "C04": dict(
        category="proof",
        text="Relational contracts, discharged by SMT on every run: wrapc.Wrapc.build_proto_list, "
             "wrapf.Wrapf.build_arg_list_interface (plain and template-argument shape) and wrapf.Wrapf.build_arg_list_impl walk "
             "the same buf_args list; each is proved, for every list and every iteration, to emit exactly one C parameter / "
             "one Fortran dummy / one actual argument per buf_arg, in order, of the class a shared descriptor table gives for "
             "that kind (type, by value vs pointer, VALUE attribute, ISO_C_BINDING kind registered for USE, kind named in the "
             "actual argument), to accept the same eight kinds and raise RuntimeError otherwise; the table's pairs are judged "
             "by an independent interoperability oracle (ISO/IEC 1539-1 clause 18). Result type: the C return type decision "
             "(wrap_function) and the interface's result declaration (wrap_function_interface) against one decision table; "
             "the abstract interface of a function-pointer argument declares the function pointer's result. Closed "
             "invariants decided exhaustively: paired c_arg_decl/f_arg_decl rows, typemap kinds, paired struct/derived type "
             "and SH_TYPE tables, helper bind(C) interfaces, and agreement of the three sites that look up 'the C statement "
             "row' on the whole key domain (keys read from the source, real lookup function). Bounded (labelled): gfortran "
             "-fc-prototypes of every generated module vs the generated C header on the corpus and ~2 900 synthetic "
             "libraries. Two genuine defects found and fixed. Also: parameters of function-pointer arguments get the same value defaulting (check_arg_attrs[fptr]); enumerations as shared constant tables; m_fcagree compares abstract interfaces with the function-pointer types of the C prototypes.",
        design_ref="6/C04, Appendix B, 12",
        note="Trusted: Declaration.gen_arg_as_c / bind_c as abstract strings (their agreement is not proved), set_f_module / "
             "update_f_module bodies, wformat model for constant templates, metaattrs/attrs set by generate.py. Not covered: "
             "user overrides (C_prototype, F_C_arguments, fstatements), the 'this' argument slice (U5).",
        technique="contract-based deductive verification (relational contracts against a shared descriptor table, AST-generated VCs, z3+cvc5) + exhaustive table invariants + bounded gfortran oracle",
    ),
    "C05": dict(
        category="proof",
        text="Necessary conditions only. Closed invariants over the statement and helper tables, decided exhaustively on "
             "every run for c and c++: every Shroud* function a row calls is defined by a helper it lists or reaches; "
             "helpers exist, dependent_helpers acyclic; a row that calls a <string.h> function brings the header in; a "
             "Fortran row that declares a helper-defined derived type lists the helper; a C helper a Fortran row relies on "
             "has source for the library's language. Deductive (VCs from the real source): preprocessor conditionals of the "
             "header writers are balanced and the include guard matches; wrapf.gather_helper_code hands every C helper of a "
             "module to the shared table (whole-view postcondition); build_arg_list_impl / build_arg_list_interface register "
             "for USE exactly the kind they name. Bounded (labelled): gfortran -fsyntax-only on every generated module of the "
             "corpus (plain, F_CFI, c/c++), gcc/g++/gfortran on ~80 user-guide declaration patterns each wrapped alone, link "
             "closure of helper names. Six genuine defects found and fixed, one recorded as known finding. Also: a class argument's capsule type is defined by the module holding the interface; m_compile covers fixed-width element types behind containers, callbacks returning pointers, pre-C++11 libraries with a bare user header, namespace functions on a class of the enclosing scope. Four open known findings, one more defect fixed.",
        design_ref="6/C05, 12",
        note="Not covered: linking against a user library, Python/Lua sources, declaration order inside files. The compile "
             "runs are bounded stand-ins, never counted as proved.",
        technique="contract-based deductive verification (AST-generated VCs) + exhaustive table invariants + bounded compiler runs",
    ),
    "C10": dict(
        category="proof",
        text="Deductive on the real C helper texts (ShroudLenTrim, ShroudStrCopy, ShroudStrBlankFill, ShroudStrAlloc, "
             "ShroudStrArrayAlloc -- every element is the NUL-terminated copy of its row without trailing blanks; both "
             "the c_source and cxx_source variants, extracted from whelpers.CHelpers on every run): loop invariants and "
             "pre/postconditions over a (block, offset) memory model give, for all lengths and contents, the documented "
             "copy/truncate/blank-pad/NUL-terminate/trim behaviour, no byte written outside the destination, no read outside "
             "the source, int arithmetic in range. Plus call-site contracts over the statement tables (which buffer, which "
             "capacity, which trimmed length each row passes; a row that returns text into a fixed-length variable defines "
             "all of it), decided exhaustively. Bounded: upstream's compiled string tests on freshly generated wrappers. T1 also requires the copied source length to be taken after the call; the copy_string helper is proved under C10 as well.",
        design_ref="6/C10, A.9",
        note="Trusted: mini-C front end, libc contracts (memcpy/memset/strlen/malloc), LP64, malloc succeeds. Not covered: "
             "Fortran intrinsics trim/len/len_trim and std::string(ptr,n) semantics, the Fortran-side slice, ShroudStrToArray/copy_string.",
        technique="contract-based deductive verification of the emitted C helper text (mini-C VCs, z3) + exhaustive table invariants",
    ),
    "C06": dict(
        category="proof",
        text="Deductive, generator-level core and the release helpers: the destructor (capsule) table of wrapc.Wrapc as a "
             "data structure against an abstract view (add_capsule_code, add_destructor, find_idtor, compute_idtor, "
             "write_capsule_code): well-formedness preserved, existing entries never change, the index returned is the one "
             "emitted as case label. Mini-C proofs on the helper texts the real module builds (c and c++): ShroudStrAlloc/"
             "Free, ShroudStrArrayAlloc/Free free exactly what they allocate; ShroudCopyStringAndFree and ShroudCopyArray "
             "release the capsule exactly once on every path, write only inside the destination, never pass NULL to "
             "strncpy/memcpy. Table invariant: temporaries allocated by a row are released by it. Two genuine defects fixed. Table invariant T4: copy-helper call sites pass the destination's own capacity. Table invariant T5: single ownership in the Python list conversion helpers (no free after the capsule owns the array) and member setters (a released owner field is re-defined before every return).",
        design_ref="6/C06, A.7, 12",
        note="Trusted: pyvc, mini-C front end, z3/cvc5, wformat contracts, typemap-cache precondition, contract of the "
             "generated memory destructor as seen by the copy helpers. copy_array computes its byte count in int: proved "
             "under the stated limit n*elem_len <= INT_MAX. Not covered: run-time call sequences, wrapp.py reference counts beyond T5.",
        technique="contract-based deductive verification (AST-generated VCs for Python, mini-C symbolic execution for the C helpers, z3+cvc5)",
    ),
    "C17": dict(
        category="proof",
        text="Deductive exception-freedom and functional contracts on the attribute validation layer "
             "(generate.VerifyAttrs.check_intent_attr, check_deref_attr, check_common_attrs, check_arg_attrs in three "
             "shapes, check_var_attrs, parse_attrs, check_implied_attrs): raises only RuntimeError for every attribute "
             "value the parser or YAML can produce (None/bool/int/str/float), plus the documented defaulting and range "
             "rules as postconditions; callers are checked against callee contracts. Six genuine defects found this way "
             "were repaired with fix: commits. Parser statement level (have, mustbe, decl_statement, error_msg) and a "
             "node-wiring judgement (add_declarations rejects a parent that cannot hold declarations; BlockNode's parent "
             "attributes exist for every parent class). YAML structure: bounded monitor (374 descriptions); five more "
             "defects fixed there. RecursiveDescent.next is verified (four shapes); nine more defects of the unchanged tree were repaired in the last round (trailing text after instantiations / generic parameter lists, qualified names on typedefs, implied expressions, wrong-typed YAML values, constructors in blocks).",
        design_ref="6/C17, A.8",
        note="Trusted: pyvc, z3/cvc5, PyVal value model, trusted contracts for declast.check_dimension and "
             "generate.check_implied, 'the parser sets Declaration.typemap'. Not covered (bounded only): token-level "
             "parser units, trailing/unbalanced text, YAML structure validation.",
        technique="contract-based deductive verification (AST-generated VCs, z3+cvc5)",
    ),
    "C12": dict(
        category="proof",
        text="Deductive: VCs from the real text of util._create_splicer (precedence force > user splicer > default, marker "
             "lines, body appended complete/in order/unchanged), splicer.get_splicers (two-state line machine: one store "
             "event per well-formed block, lines right-stripped, complete, in order, stored at the node reached through the "
             "dotted prefix of its tag; only RuntimeError), Wrapf.wrap_namespace (a namespace's module is written under that "
             "namespace's splicer scope; 0-2 nested namespaces), a judgement that YAML-listed splicer files go to the store of "
             "their key, and the emission "
             "identity of a user line through write_lines/write_continue, discharged by z3/cvc5 for all inputs. The "
             "unrestricted emission identity is a recorded known finding (interior TAB / trailing '+'); it is proved under "
             "the finding's carve-out. Bounded m_splicer_e2e also covers splicer_code, mixed and colliding sources and declaration-level splicers; m_splicer_emit covers empty user bodies and force. One more genuine defect fixed (splicer_code dropped blocks read from files). Bounded relations on every upstream regression input (m_corpus_rel) run in both tiers.",
        design_ref="6/C12, A.4, A.5",
        note="Trusted: pyvc, z3/cvc5, nested-dict store as class Tree with ghost paths, split()/rstrip() vocabulary. Bounded "
             "(labelled): reader on block orders; end-to-end round trip of one unique line per block of every generated file. "
             "Not covered: source precedence in main_with_args, listify.",
        technique="contract-based deductive verification (AST-generated VCs, z3+cvc5)",
    ),
    "C13": dict(
        category="proof",
        text="Deductive: verification conditions generated from the real source text of util.WrapperMixin.write_continue "
             "and write_lines (loop invariants, ghost text emitted so far, per-part contribution spec) and discharged by "
             "z3/cvc5 for all lines, line lengths, indentations and continuation markers, no bound. Thorough tier adds a "
             "bounded run-time contract on the real functions (labelled bounded). Wiring items: each emitter binds linelen / cont to the option and marker of its own language; bounded driver run with F_line_length != C_line_length (m_linelen_e2e). Bounded relations on every upstream regression input (m_corpus_rel) run in both tiers.",
        design_ref="6/C13, A.1, A.2",
        note="Trusted: pyvc translator, z3 5.1/cvc5 1.0.3, Python string/int semantics as tabulated in DESIGN 2.1, abstract "
             "whitespace set for lstrip. Not covered: that every emitter places break hints so that Fortran lines fit 132 columns.",
        technique="contract-based deductive verification (AST-generated VCs, z3+cvc5)",
    ),
}


def main():
    props = [json.loads(l)["id"] for l in open(os.path.join(HERE, "properties.jsonl"))]
    checks = []
    na = []
    for p in props:
        if p in CHECKS:
            c = CHECKS[p]
            checks.append({
                "property_id": p,
                "quick_cmd": "./check %s --tier quick" % p,
                "thorough_cmd": "./check %s --tier thorough" % p,
                "evidence_file": "evidence/%s.json" % p,
                "replay_cmd_template": "./check %s --replay {path}" % p,
                "engine": "effects" if p in ("C07", "C16") else ("pyvc" if c["category"] == "proof" else "tables"),
                "level_claimed": {"category": c["category"], "text": c["text"], "design_ref": c["design_ref"]},
                "level_note": c["note"],
                "technique": c["technique"],
            })
        else:
            na.append({"property_id": p, "reason": NA.get(p, PENDING)})
    m = {
        "version": 1,
        "setup_cmd": "true",
        "hooks": {
            "guard": "SHROUD_VERIF",
            "enable": "no hooks: nothing in /repo is instrumented; contracts are sidecar files under /verif/contracts and the verified text is re-read from /repo on every run",
            "baseline_off_cmd": "cd /repo && /venv/bin/python -m pytest -ra -q -p no:cacheprovider --timeout=900 --continue-on-collection-errors",
            "source_commits": [],
            "add_only": True,
        },
        "engines": [
            {"name": "effects", "path": "effects/", "serves_properties": ["C07", "C16"],
             "kind_free_text": "effect checker: modifies-contracts over module/class-level mutable roots, bottom-up effect summaries per function"},
            {"name": "tables", "path": "tables/", "serves_properties": ["C04", "C05", "C06", "C10"],
             "kind_free_text": "table-invariant evaluator: closed representation invariants over the constant tables the real modules build, decided exhaustively on every run"},
            {"name": "pyvc", "path": "pyvc/", "serves_properties": sorted(CHECKS),
             "kind_free_text": "verification-condition generator over the real Python AST (path splitting, loop invariants, ghost code by structural anchors, folds) with z3 and cvc5 back ends; run-time monitors only for counterexample replay and labelled bounded stand-ins"},
        ],
        "checks": checks,
        "notes": "Exit codes of ./check: 0 held, 1 violation (VIOLATION line), 2 undecided (never a VIOLATION line), 3 checker error.",
        "not_applicable": na,
    }
    json.dump(m, open(os.path.join(HERE, "MANIFEST.json"), "w"), indent=1)


if __name__ == "__main__":
    main()
